package eng

import (
	"go/token"
	"go/types"
	"strings"

	"golang.org/x/tools/go/ssa"
)

// ---------------------------------------------------------------------------------------
// A3 value origin: a backward slice over SSA definitions.
//
// Slice visits every value the given value may be computed from: through phis, loads of
// local allocs (all stores into the same alloc / same field of it), field/element
// addressing, conversions, tuple extraction, closure free variables (resolved to the
// bindings of the enclosing function), and — up to Depth — calls to functions of the
// repository whose results are followed into the callee with parameters bound to the
// actual arguments. Calls that are not followed, parameters of the outermost function,
// constants, globals and functions are leaves.

// Slicer configures a backward slice.
type Slicer struct {
	W *World
	// Depth bounds how many nested repository calls are followed (0: none).
	Depth int
	// FollowCall decides whether a given call may be inlined (default: repo functions with bodies).
	FollowCall func(c *ssa.Call, callee *ssa.Function) bool
	// Args makes a call result also derive from the call's receiver and arguments
	// (data dependence through calls), for every call whether followed or not.
	Args bool
	// Up traces a parameter of an extracted helper (a function whose callers are all known,
	// see interproc.go) into the arguments at its call sites — union over the call sites.
	Up bool
}

// WithUp returns a copy of the slicer that lifts helper parameters into their call sites.
func (s *Slicer) WithUp() *Slicer { c := *s; c.Up = true; return &c }

// WithArgs returns a copy of the slicer that treats call results as derived from the
// call's operands.
func (s *Slicer) WithArgs() *Slicer { c := *s; c.Args = true; return &c }

type frame struct {
	call   *ssa.Call
	parent *frame
	depth  int
	up     bool // marks a step from a helper's parameter up into a call site
}

func upDepth(f *frame) int {
	n := 0
	for ; f != nil; f = f.parent {
		if f.up {
			n++
		}
	}
	return n
}

func frDepth(f *frame) int {
	if f == nil {
		return 0
	}
	return f.depth
}

type visitKey struct {
	v ssa.Value
	f *frame
}

// Node is a visited value together with whether it is a leaf of the slice.
type Node struct {
	V    ssa.Value
	Leaf bool
}

// Walk visits the slice of v depth-first. visit is called once per (value, call context);
// returning false stops descent below that node.
func (s *Slicer) Walk(v ssa.Value, visit func(n Node) bool) {
	seen := map[visitKey]bool{}
	s.walk(v, nil, seen, visit)
}

func (s *Slicer) follow(c *ssa.Call, callee *ssa.Function, fr *frame) bool {
	d := 0
	if fr != nil {
		d = fr.depth
	}
	if d >= s.Depth || callee == nil || callee.Blocks == nil {
		return false
	}
	// no recursion
	for f := fr; f != nil; f = f.parent {
		if f.call != nil && f.call.Call.StaticCallee() == callee {
			return false
		}
	}
	if s.FollowCall != nil {
		return s.FollowCall(c, callee)
	}
	return callee.Pkg != nil && Analysable(callee)
}

// Analysable reports whether f has a body and belongs to the repository (or to a fixture).
func Analysable(f *ssa.Function) bool {
	if f == nil || f.Blocks == nil || f.Pkg == nil {
		return false
	}
	p := f.Pkg.Pkg.Path()
	return IsRepoPkg(p) || p == "fx"
}

func (s *Slicer) walk(v ssa.Value, fr *frame, seen map[visitKey]bool, visit func(n Node) bool) {
	if v == nil {
		return
	}
	k := visitKey{v, fr}
	if seen[k] {
		return
	}
	seen[k] = true
	next := func(x ssa.Value) { s.walk(x, fr, seen, visit) }

	switch n := v.(type) {
	case *ssa.Const, *ssa.Global, *ssa.Function, *ssa.Builtin:
		visit(Node{v, true})
	case *ssa.Parameter:
		if fr != nil && !fr.up {
			// bound to the actual argument in the caller's context
			if !visit(Node{v, false}) {
				return
			}
			fn := n.Parent()
			for i, p := range fn.Params {
				if p == n && i < len(fr.call.Call.Args) {
					s.walk(fr.call.Call.Args[i], fr.parent, seen, visit)
					return
				}
			}
			return
		}
		// parameter of the analysed function: if that function is an extracted helper whose
		// callers are all known, the value comes from the arguments at its call sites
		if s.Up && upDepth(fr) < LiftDepth {
			if args := upArgs(n); len(args) > 0 {
				if !visit(Node{v, false}) {
					return
				}
				for _, a := range args {
					s.walk(a, &frame{up: true, parent: fr, depth: frDepth(fr)}, seen, visit)
				}
				return
			}
		}
		visit(Node{v, true})
	case *ssa.FreeVar:
		if !visit(Node{v, false}) {
			return
		}
		fn := n.Parent()
		idx := -1
		for i, fv := range fn.FreeVars {
			if fv == n {
				idx = i
			}
		}
		found := false
		if p := fn.Parent(); p != nil && idx >= 0 {
			for _, pf := range WithClosures(outermost(p)) {
				Instrs(pf, func(ins ssa.Instruction) {
					if mc, ok := ins.(*ssa.MakeClosure); ok && mc.Fn == fn && idx < len(mc.Bindings) {
						found = true
						s.walk(mc.Bindings[idx], fr, seen, visit)
					}
				})
			}
		}
		if !found {
			visit(Node{v, true})
		}
	case *ssa.Phi:
		if !visit(Node{v, false}) {
			return
		}
		for _, e := range n.Edges {
			next(e)
		}
	case *ssa.UnOp:
		if n.Op == token.MUL {
			s.walkLoad(n, fr, seen, visit)
			return
		}
		if !visit(Node{v, false}) {
			return
		}
		next(n.X)
	case *ssa.Alloc:
		// address of a local/heap cell: what it may hold is what is stored into it
		if !visit(Node{v, false}) {
			return
		}
		s.storesInto(n, nil, fr, seen, visit)
	case *ssa.FieldAddr:
		if !visit(Node{v, false}) {
			return
		}
		next(n.X)
	case *ssa.Field:
		if !visit(Node{v, false}) {
			return
		}
		next(n.X)
	case *ssa.IndexAddr:
		if !visit(Node{v, false}) {
			return
		}
		next(n.X)
	case *ssa.Index:
		if !visit(Node{v, false}) {
			return
		}
		next(n.X)
	case *ssa.Lookup:
		if !visit(Node{v, false}) {
			return
		}
		next(n.X)
	case *ssa.Extract:
		if c, ok := n.Tuple.(*ssa.Call); ok {
			s.walkCall(c, n.Index, v, fr, seen, visit)
			return
		}
		if !visit(Node{v, false}) {
			return
		}
		next(n.Tuple)
	case *ssa.Call:
		s.walkCall(n, -1, v, fr, seen, visit)
	case *ssa.MakeInterface:
		if !visit(Node{v, false}) {
			return
		}
		next(n.X)
	case *ssa.ChangeType:
		if !visit(Node{v, false}) {
			return
		}
		next(n.X)
	case *ssa.ChangeInterface:
		if !visit(Node{v, false}) {
			return
		}
		next(n.X)
	case *ssa.Convert:
		if !visit(Node{v, false}) {
			return
		}
		next(n.X)
	case *ssa.TypeAssert:
		if !visit(Node{v, false}) {
			return
		}
		next(n.X)
	case *ssa.Slice:
		if !visit(Node{v, false}) {
			return
		}
		next(n.X)
	case *ssa.SliceToArrayPointer:
		if !visit(Node{v, false}) {
			return
		}
		next(n.X)
	case *ssa.BinOp:
		if !visit(Node{v, false}) {
			return
		}
		next(n.X)
		next(n.Y)
	case *ssa.MakeClosure:
		if !visit(Node{v, false}) {
			return
		}
		for _, b := range n.Bindings {
			next(b)
		}
	case *ssa.MakeSlice, *ssa.MakeMap, *ssa.MakeChan:
		visit(Node{v, true})
	case *ssa.Next, *ssa.Range, *ssa.Select:
		if !visit(Node{v, false}) {
			return
		}
		for _, op := range v.(ssa.Instruction).Operands(nil) {
			if *op != nil {
				next(*op)
			}
		}
	default:
		visit(Node{v, true})
	}
}

func outermost(f *ssa.Function) *ssa.Function {
	for f.Parent() != nil {
		f = f.Parent()
	}
	return f
}

// walkLoad handles *addr.
func (s *Slicer) walkLoad(ld *ssa.UnOp, fr *frame, seen map[visitKey]bool, visit func(n Node) bool) {
	if !visit(Node{ld, false}) {
		return
	}
	addr := ld.X
	switch a := addr.(type) {
	case *ssa.Alloc:
		s.storesInto(a, nil, fr, seen, visit)
		return
	case *ssa.FieldAddr:
		if base, ok := allocBase(a.X); ok {
			s.storesInto(base, []int{a.Field}, fr, seen, visit)
			return
		}
		// nested path a.b.c rooted at a local alloc
		if base, path, ok := allocPath(a); ok {
			s.storesInto(base, path, fr, seen, visit)
			return
		}
	case *ssa.FreeVar:
		// captured variable: resolve to the enclosing function's cell
		s.walk(a, fr, seen, func(n Node) bool {
			if al, ok := n.V.(*ssa.Alloc); ok {
				if !visit(Node{al, false}) {
					return false
				}
				s.storesInto(al, nil, fr, seen, visit)
				return false
			}
			return visit(n)
		})
		return
	}
	s.walk(addr, fr, seen, visit)
}

func allocBase(v ssa.Value) (*ssa.Alloc, bool) {
	a, ok := v.(*ssa.Alloc)
	return a, ok
}

// allocPath resolves a FieldAddr chain rooted directly at an Alloc (struct-in-struct).
func allocPath(fa *ssa.FieldAddr) (*ssa.Alloc, []int, bool) {
	var path []int
	var cur ssa.Value = fa
	for {
		f, ok := cur.(*ssa.FieldAddr)
		if !ok {
			break
		}
		path = append([]int{f.Field}, path...)
		cur = f.X
	}
	a, ok := cur.(*ssa.Alloc)
	return a, path, ok
}

func samePrefix(a, b []int) bool {
	n := len(a)
	if len(b) < n {
		n = len(b)
	}
	for i := 0; i < n; i++ {
		if a[i] != b[i] {
			return false
		}
	}
	return true
}

// storesInto visits the values stored into cell (alloc, path): stores to the same path,
// to a prefix (whole-struct store) or to an extension of it, performed in the function that
// owns the alloc or in closures capturing it. If the address escapes to a call, the call is
// visited as a possible writer.
func (s *Slicer) storesInto(a *ssa.Alloc, path []int, fr *frame, seen map[visitKey]bool, visit func(n Node) bool) {
	var addrUses func(addr ssa.Value, p []int, depth int)
	addrUses = func(addr ssa.Value, p []int, depth int) {
		if addr.Referrers() == nil || depth > 6 {
			return
		}
		for _, r := range *addr.Referrers() {
			switch u := r.(type) {
			case *ssa.Store:
				if u.Addr == addr && samePrefix(p, path) {
					s.walk(u.Val, fr, seen, visit)
				}
			case *ssa.FieldAddr:
				if u.X == addr {
					np := append(append([]int{}, p...), u.Field)
					if samePrefix(np, path) {
						addrUses(u, np, depth+1)
					}
				}
			case *ssa.IndexAddr:
				if u.X == addr {
					addrUses(u, p, depth+1)
				}
			case ssa.CallInstruction:
				// address passed to a call (e.g. json.Unmarshal(&x), method with pointer receiver)
				if cv, ok := r.(ssa.Value); ok {
					for _, arg := range u.Common().Args {
						if arg == addr {
							// only calls that may write: pointer receivers / pointer args. Visit as leaf.
							visit(Node{cv, true})
						}
					}
				}
			case *ssa.MakeClosure:
				for i, b := range u.Bindings {
					if b == addr {
						if fn, ok := u.Fn.(*ssa.Function); ok && i < len(fn.FreeVars) {
							addrUses(fn.FreeVars[i], p, depth+1)
						}
					}
				}
			}
		}
	}
	addrUses(a, nil, 0)
}

func (s *Slicer) walkCall(c *ssa.Call, resIdx int, self ssa.Value, fr *frame, seen map[visitKey]bool, visit func(n Node) bool) {
	callee := c.Call.StaticCallee()
	if b, ok := c.Call.Value.(*ssa.Builtin); ok && b.Name() == "append" {
		// the result holds the elements of the base slice and the appended ones
		if !visit(Node{self, false}) {
			return
		}
		for _, a := range c.Call.Args {
			s.walk(a, fr, seen, visit)
		}
		return
	}
	if s.Args {
		followed := callee != nil && s.follow(c, callee, fr)
		if !visit(Node{self, false}) {
			return
		}
		if c.Call.IsInvoke() {
			s.walk(c.Call.Value, fr, seen, visit)
		} else if callee == nil {
			s.walk(c.Call.Value, fr, seen, visit)
		}
		for _, a := range c.Call.Args {
			s.walk(a, fr, seen, visit)
		}
		if !followed {
			return
		}
		d := 1
		if fr != nil {
			d = fr.depth + 1
		}
		nf := &frame{call: c, parent: fr, depth: d}
		for _, b := range callee.Blocks {
			for _, ins := range b.Instrs {
				if r, ok := ins.(*ssa.Return); ok {
					if resIdx < 0 {
						for _, x := range r.Results {
							s.walk(x, nf, seen, visit)
						}
					} else if resIdx < len(r.Results) {
						s.walk(r.Results[resIdx], nf, seen, visit)
					}
				}
			}
		}
		return
	}
	if callee != nil && s.follow(c, callee, fr) {
		if !visit(Node{self, false}) {
			return
		}
		d := 1
		if fr != nil {
			d = fr.depth + 1
		}
		nf := &frame{call: c, parent: fr, depth: d}
		for _, b := range callee.Blocks {
			for _, ins := range b.Instrs {
				if r, ok := ins.(*ssa.Return); ok {
					if resIdx < 0 {
						for _, x := range r.Results {
							s.walk(x, nf, seen, visit)
						}
					} else if resIdx < len(r.Results) {
						s.walk(r.Results[resIdx], nf, seen, visit)
					}
				}
			}
		}
		return
	}
	visit(Node{self, true})
}

// ---------------------------------------------------------------------------------------
// Queries on slices

// DerivesFrom reports whether some value in the slice of v satisfies pred.
func (s *Slicer) DerivesFrom(v ssa.Value, pred func(ssa.Value) bool) bool {
	found := false
	s.Walk(v, func(n Node) bool {
		if found {
			return false
		}
		if pred(n.V) {
			found = true
			return false
		}
		return true
	})
	return found
}

// Leaves returns the leaves of the slice of v, stopping early at values satisfying stop
// (those count as leaves).
func (s *Slicer) Leaves(v ssa.Value, stop func(ssa.Value) bool) []ssa.Value {
	var out []ssa.Value
	seen := map[ssa.Value]bool{}
	s.Walk(v, func(n Node) bool {
		if stop != nil && stop(n.V) {
			if !seen[n.V] {
				seen[n.V] = true
				out = append(out, n.V)
			}
			return false
		}
		if n.Leaf && !seen[n.V] {
			seen[n.V] = true
			out = append(out, n.V)
		}
		return true
	})
	return out
}

// CallResultOf returns the *ssa.Call underlying v when v is a call or an Extract of one.
func CallResultOf(v ssa.Value) (*ssa.Call, int) {
	switch n := v.(type) {
	case *ssa.Call:
		return n, -1
	case *ssa.Extract:
		if c, ok := n.Tuple.(*ssa.Call); ok {
			return c, n.Index
		}
	}
	return nil, -1
}

// IsResultOf reports whether v is (an extract of) a call to one of the named callees.
func IsResultOf(v ssa.Value, names ...string) bool {
	c, _ := CallResultOf(v)
	return c != nil && IsCall(c, names...)
}

// ---------------------------------------------------------------------------------------
// Access paths

// AccessPath renders a load/field chain as "root.f.g" where root is a parameter name,
// free variable name, or "<kind>" for other roots. ok=false if v is not a path.
func AccessPath(v ssa.Value) (root ssa.Value, path []string) {
	cur := v
	for {
		switch n := cur.(type) {
		case *ssa.UnOp:
			if n.Op != token.MUL {
				return cur, path
			}
			// spilled parameter: t = local T; *t = param
			if a, ok := n.X.(*ssa.Alloc); ok {
				if sv := singleStore(a); sv != nil {
					cur = sv
					continue
				}
			}
			cur = n.X
		case *ssa.FieldAddr:
			path = append([]string{fieldName(n.X.Type(), n.Field)}, path...)
			// FieldAddr on a spilled value (alloc with single store)
			if a, ok := n.X.(*ssa.Alloc); ok {
				if sv := singleStore(a); sv != nil {
					cur = sv
					continue
				}
			}
			cur = n.X
		case *ssa.Field:
			path = append([]string{fieldName(n.X.Type(), n.Field)}, path...)
			cur = n.X
		case *ssa.IndexAddr:
			path = append([]string{"[]"}, path...)
			cur = n.X
		case *ssa.Index:
			path = append([]string{"[]"}, path...)
			cur = n.X
		case *ssa.ChangeType:
			cur = n.X
		default:
			return cur, path
		}
	}
}

// singleStore returns the only value ever stored into alloc a by a direct Store, provided
// the alloc is not otherwise written (no field stores, not passed to calls); nil otherwise.
func singleStore(a *ssa.Alloc) ssa.Value {
	if a.Referrers() == nil {
		return nil
	}
	var val ssa.Value
	for _, r := range *a.Referrers() {
		switch u := r.(type) {
		case *ssa.Store:
			if u.Addr == a {
				if val != nil {
					return nil
				}
				val = u.Val
			}
		case *ssa.FieldAddr:
			// reading fields is fine; stores through the field address are not
			if u.Referrers() != nil {
				for _, rr := range *u.Referrers() {
					if st, ok := rr.(*ssa.Store); ok && st.Addr == u {
						return nil
					}
				}
			}
		case *ssa.UnOp, *ssa.DebugRef:
		case ssa.CallInstruction:
			// method call on the address: may mutate; still report the stored value as the base
		default:
		}
	}
	return val
}

func fieldName(t types.Type, i int) string {
	if p, ok := t.Underlying().(*types.Pointer); ok {
		t = p.Elem()
	}
	if st, ok := t.Underlying().(*types.Struct); ok && i < st.NumFields() {
		return st.Field(i).Name()
	}
	return "?"
}

// PathString renders AccessPath as text: "<rootname>.a.b".
func PathString(v ssa.Value) string {
	root, path := AccessPath(v)
	name := "<" + strings.TrimPrefix(strings.TrimPrefix(typeKind(root), "*ssa."), "ssa.") + ">"
	switch r := root.(type) {
	case *ssa.Parameter:
		name = r.Name()
	case *ssa.FreeVar:
		name = r.Name()
	case *ssa.Global:
		name = r.Name()
	}
	if len(path) == 0 {
		return name
	}
	return name + "." + strings.Join(path, ".")
}

func typeKind(v ssa.Value) string {
	switch v.(type) {
	case *ssa.Call:
		return "Call"
	case *ssa.Extract:
		return "Extract"
	case *ssa.Alloc:
		return "Alloc"
	case *ssa.Phi:
		return "Phi"
	case *ssa.Const:
		return "Const"
	case *ssa.Lookup:
		return "Lookup"
	case *ssa.TypeAssert:
		return "TypeAssert"
	case *ssa.Next:
		return "Next"
	}
	return "Value"
}

// FieldAddrOf reports whether addr is a FieldAddr (possibly of a nested struct path)
// selecting the field named name of a struct whose type name is typ ("pkgpath.Type").
func FieldAddrOf(addr ssa.Value, typ, name string) bool {
	fa, ok := addr.(*ssa.FieldAddr)
	if !ok {
		return false
	}
	if fieldName(fa.X.Type(), fa.Field) != name {
		return false
	}
	return typ == "" || TypeName(derefType(fa.X.Type())) == typ
}

func derefType(t types.Type) types.Type {
	if p, ok := t.Underlying().(*types.Pointer); ok {
		return p.Elem()
	}
	return t
}

// FieldLoadOf reports whether v is a load of field typ.name (or a Field extraction of it).
func FieldLoadOf(v ssa.Value, typ, name string) bool {
	switch n := v.(type) {
	case *ssa.UnOp:
		if n.Op == token.MUL {
			return FieldAddrOf(n.X, typ, name)
		}
	case *ssa.Field:
		if fieldName(n.X.Type(), n.Field) != name {
			return false
		}
		return typ == "" || TypeName(n.X.Type()) == typ
	}
	return false
}

// StoresToField returns the Store instructions in funcs whose address is field typ.name.
func StoresToField(funcs []*ssa.Function, typ, name string) []*ssa.Store {
	var out []*ssa.Store
	for _, f := range funcs {
		Instrs(f, func(ins ssa.Instruction) {
			if st, ok := ins.(*ssa.Store); ok && FieldAddrOf(st.Addr, typ, name) {
				out = append(out, st)
			}
		})
	}
	return out
}
