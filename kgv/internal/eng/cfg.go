package eng

import (
	"go/constant"
	"go/token"
	"go/types"

	"golang.org/x/tools/go/ssa"
)

// ---------------------------------------------------------------------------------------
// Instruction-level path queries (A1). All queries are over the SSA CFG of one function;
// the recover block is ignored. Paths are sequences of instructions; a path "passes" an
// instruction when it executes it.

// InstrIndex returns the index of ins in its block.
func InstrIndex(ins ssa.Instruction) int {
	for i, x := range ins.Block().Instrs {
		if x == ins {
			return i
		}
	}
	return -1
}

// IsExit reports whether ins ends the function (Return or Panic).
func IsExit(ins ssa.Instruction) bool {
	switch ins.(type) {
	case *ssa.Return, *ssa.Panic:
		return true
	}
	return false
}

// PathQuery describes a forward search.
type PathQuery struct {
	// Target is satisfied when the path reaches such an instruction.
	Target func(ssa.Instruction) bool
	// Avoid cuts a path at such an instruction (the instruction is not passed).
	Avoid func(ssa.Instruction) bool
	// BlockEdge, when non-nil, cuts the CFG edge from -> to (by successor index).
	BlockEdge func(from *ssa.BasicBlock, succIdx int) bool
}

// ReachFromEntry reports whether some path from the function entry reaches a Target
// instruction without passing an Avoid instruction; it returns the first target found.
func ReachFromEntry(fn *ssa.Function, q PathQuery) ssa.Instruction {
	if len(fn.Blocks) == 0 {
		return nil
	}
	return search(fn.Blocks[0], 0, q)
}

// ReachAfter reports whether some path starting immediately after ins reaches a Target
// instruction without passing an Avoid instruction.
func ReachAfter(ins ssa.Instruction, q PathQuery) ssa.Instruction {
	return search(ins.Block(), InstrIndex(ins)+1, q)
}

func search(b *ssa.BasicBlock, start int, q PathQuery) ssa.Instruction {
	type item struct {
		b    *ssa.BasicBlock
		i    int
		pred *ssa.BasicBlock
	}
	type key struct {
		b    *ssa.BasicBlock
		pred *ssa.BasicBlock
	}
	seen := map[key]bool{}
	work := []item{{b, start, nil}}
	for len(work) > 0 {
		it := work[len(work)-1]
		work = work[:len(work)-1]
		cut := false
		for i := it.i; i < len(it.b.Instrs); i++ {
			ins := it.b.Instrs[i]
			if q.Avoid != nil && q.Avoid(ins) {
				cut = true
				break
			}
			if q.Target != nil && q.Target(ins) {
				return ins
			}
		}
		if cut {
			continue
		}
		only := -1
		if it.pred != nil {
			if v, known := constCondFrom(it.b, it.pred); known {
				if v {
					only = 0
				} else {
					only = 1
				}
			}
		}
		for si, s := range it.b.Succs {
			if only >= 0 && si != only {
				continue
			}
			if q.BlockEdge != nil && q.BlockEdge(it.b, si) {
				continue
			}
			k := key{s, nil}
			if phiCond(s) != nil {
				k.pred = it.b
			}
			if !seen[k] {
				seen[k] = true
				work = append(work, item{s, 0, it.b})
			}
		}
	}
	return nil
}

// phiCond returns the phi of block b that decides b's terminating If (directly or
// negated), or nil.
func phiCond(b *ssa.BasicBlock) *ssa.Phi {
	if len(b.Instrs) == 0 {
		return nil
	}
	iff, ok := b.Instrs[len(b.Instrs)-1].(*ssa.If)
	if !ok {
		return nil
	}
	c := iff.Cond
	for {
		if u, ok := c.(*ssa.UnOp); ok && u.Op == token.NOT {
			c = u.X
			continue
		}
		break
	}
	if p, ok := c.(*ssa.Phi); ok && p.Block() == b {
		return p
	}
	return nil
}

// constCondFrom evaluates b's If condition when b is entered from pred and the condition
// is a phi of b whose incoming value on that edge is a boolean constant (one-step path
// sensitivity: `ok = false; if !ok {…}` joins are not followed into the infeasible arm).
func constCondFrom(b, pred *ssa.BasicBlock) (bool, bool) {
	p := phiCond(b)
	if p == nil {
		return false, false
	}
	iff := b.Instrs[len(b.Instrs)-1].(*ssa.If)
	neg := false
	c := iff.Cond
	for {
		if u, ok := c.(*ssa.UnOp); ok && u.Op == token.NOT {
			c = u.X
			neg = !neg
			continue
		}
		break
	}
	for i, pb := range b.Preds {
		if pb == pred && i < len(p.Edges) {
			if k, ok := p.Edges[i].(*ssa.Const); ok && k.Value != nil && k.Value.Kind() == constant.Bool {
				v := constant.BoolVal(k.Value)
				if neg {
					v = !v
				}
				return v, true
			}
		}
	}
	return false, false
}

// AlwaysBefore reports whether every path from the function entry to target passes an
// instruction satisfying pred first (pred "dominates" target, possibly through several sites).
func AlwaysBefore(fn *ssa.Function, target ssa.Instruction, pred func(ssa.Instruction) bool) bool {
	px := liftPred(pred, LiftDepth) // a call of a helper that always executes pred counts as pred
	if ReachFromEntry(fn, PathQuery{
		Target: func(i ssa.Instruction) bool { return i == target },
		Avoid:  func(i ssa.Instruction) bool { return i != target && px(i) },
	}) == nil {
		return true
	}
	// the target sits in an extracted helper: every call site of the helper must be preceded by pred
	if target != nil && target.Parent() == fn {
		return liftedAlwaysBefore(target, pred, LiftDepth)
	}
	return false
}

// AlwaysAfter reports whether every path from ins to a function exit passes an
// instruction satisfying pred. Deferred calls are not considered here (see DeferredCalls).
func AlwaysAfter(ins ssa.Instruction, pred func(ssa.Instruction) bool) bool {
	return ReachAfter(ins, PathQuery{Target: IsExit, Avoid: liftPred(pred, LiftDepth)}) == nil
}

// NeverAfter reports whether no path from ins reaches an instruction satisfying pred.
func NeverAfter(ins ssa.Instruction, pred func(ssa.Instruction) bool) bool {
	return ReachAfter(ins, PathQuery{Target: pred}) == nil
}

// Reachable reports whether b is reachable from the entry block.
func Reachable(fn *ssa.Function, b *ssa.BasicBlock) bool {
	if len(fn.Blocks) == 0 {
		return false
	}
	if b == fn.Blocks[0] {
		return true
	}
	seen := map[*ssa.BasicBlock]bool{fn.Blocks[0]: true}
	work := []*ssa.BasicBlock{fn.Blocks[0]}
	for len(work) > 0 {
		x := work[len(work)-1]
		work = work[:len(work)-1]
		for _, s := range x.Succs {
			if s == b {
				return true
			}
			if !seen[s] {
				seen[s] = true
				work = append(work, s)
			}
		}
	}
	return false
}

// ---------------------------------------------------------------------------------------
// Guards (A2): the if-edges that every path from the entry to a block must traverse.

// Guard is a branch condition known to hold at a program point.
type Guard struct {
	If     *ssa.If
	Branch bool // true: the condition holds; false: it does not
}

// edgeDominates reports whether every path entry -> target traverses edge from->Succs[idx].
func edgeDominates(fn *ssa.Function, from *ssa.BasicBlock, idx int, target *ssa.BasicBlock) bool {
	if len(fn.Blocks) == 0 {
		return false
	}
	entry := fn.Blocks[0]
	if target == entry {
		return false
	}
	seen := map[*ssa.BasicBlock]bool{entry: true}
	work := []*ssa.BasicBlock{entry}
	for len(work) > 0 {
		x := work[len(work)-1]
		work = work[:len(work)-1]
		for si, s := range x.Succs {
			if x == from && si == idx {
				continue
			}
			if s == target {
				return false
			}
			if !seen[s] {
				seen[s] = true
				work = append(work, s)
			}
		}
	}
	return true
}

// GuardsOfBlock returns all if-edges that dominate block b (every path from the entry to
// b takes that edge). A block unreachable from the entry has no guards.
func GuardsOfBlock(b *ssa.BasicBlock) []Guard {
	fn := b.Parent()
	if !Reachable(fn, b) {
		return nil
	}
	var out []Guard
	for _, blk := range fn.Blocks {
		if len(blk.Instrs) == 0 {
			continue
		}
		iff, ok := blk.Instrs[len(blk.Instrs)-1].(*ssa.If)
		if !ok {
			continue
		}
		if blk.Succs[0] == blk.Succs[1] {
			continue
		}
		if edgeDominates(fn, blk, 0, b) {
			out = append(out, Guard{iff, true})
		} else if edgeDominates(fn, blk, 1, b) {
			out = append(out, Guard{iff, false})
		}
	}
	return out
}

// GuardsOf returns the guards of the block holding ins.
func GuardsOf(ins ssa.Instruction) []Guard { return GuardsOfBlock(ins.Block()) }

// Rel is a normalised relational fact  X op Y.
type Rel struct {
	Op   token.Token // EQL NEQ LSS LEQ GTR GEQ; or ILLEGAL for a plain boolean value X==Y(true/false const)
	X, Y ssa.Value
}

func negateOp(op token.Token) token.Token {
	switch op {
	case token.EQL:
		return token.NEQ
	case token.NEQ:
		return token.EQL
	case token.LSS:
		return token.GEQ
	case token.LEQ:
		return token.GTR
	case token.GTR:
		return token.LEQ
	case token.GEQ:
		return token.LSS
	}
	return token.ILLEGAL
}

// FlipOp mirrors an operator (x op y  ==  y flip(op) x).
func FlipOp(op token.Token) token.Token {
	switch op {
	case token.LSS:
		return token.GTR
	case token.LEQ:
		return token.GEQ
	case token.GTR:
		return token.LSS
	case token.GEQ:
		return token.LEQ
	}
	return op
}

// BoolConst returns an ssa bool constant value.
func boolConst(b bool) *ssa.Const {
	return ssa.NewConst(constant.MakeBool(b), types.Typ[types.Bool])
}

// RelOf expresses "cond has truth value branch" as a relation. A comparison BinOp gives
// its (possibly negated) relation; `!x` is unwrapped; any other boolean value v gives
// v == true / v == false.
func RelOf(cond ssa.Value, branch bool) Rel {
	for {
		if u, ok := cond.(*ssa.UnOp); ok && u.Op == token.NOT {
			cond = u.X
			branch = !branch
			continue
		}
		break
	}
	if b, ok := cond.(*ssa.BinOp); ok {
		switch b.Op {
		case token.EQL, token.NEQ, token.LSS, token.LEQ, token.GTR, token.GEQ:
			op := b.Op
			if !branch {
				op = negateOp(op)
			}
			return Rel{op, b.X, b.Y}
		}
	}
	return Rel{token.EQL, cond, boolConst(branch)}
}

// Rel returns the relational form of a guard.
func (g Guard) Rel() Rel { return RelOf(g.If.Cond, g.Branch) }

// IsNilConst reports whether v is the nil constant.
func IsNilConst(v ssa.Value) bool {
	c, ok := v.(*ssa.Const)
	return ok && c.IsNil()
}

// IsBoolConst reports whether v is the boolean constant b.
func IsBoolConst(v ssa.Value, b bool) bool {
	c, ok := v.(*ssa.Const)
	if !ok || c.Value == nil || c.Value.Kind() != constant.Bool {
		return false
	}
	return constant.BoolVal(c.Value) == b
}

// IntConst returns the integer value of a constant.
func IntConst(v ssa.Value) (int64, bool) {
	c, ok := v.(*ssa.Const)
	if !ok || c.Value == nil {
		return 0, false
	}
	if c.Value.Kind() != constant.Int {
		if c.Value.Kind() == constant.Float {
			f, _ := constant.Float64Val(c.Value)
			if f == float64(int64(f)) {
				return int64(f), true
			}
		}
		return 0, false
	}
	i, ok := constant.Int64Val(c.Value)
	return i, ok
}

// StringConst returns the string value of a constant.
func StringConst(v ssa.Value) (string, bool) {
	c, ok := v.(*ssa.Const)
	if !ok || c.Value == nil || c.Value.Kind() != constant.String {
		return "", false
	}
	return constant.StringVal(c.Value), true
}

// GuardedBy reports whether some guard of ins, in relational form, satisfies pred.
func GuardedBy(ins ssa.Instruction, pred func(Rel) bool) bool {
	if guardedByIntra(ins, pred) {
		return true
	}
	// ins sits in an extracted helper: the guard may hold at every call site of the helper
	return liftedGuardedBy(ins, pred, LiftDepth)
}

// GuardedByTrue reports whether ins executes only when boolean value v (as identified by
// match) is true (want=true) or false (want=false).
func GuardedByBool(ins ssa.Instruction, match func(ssa.Value) bool, want bool) bool {
	return GuardedBy(ins, func(r Rel) bool {
		if r.Op == token.EQL && match(r.X) && IsBoolConst(r.Y, want) {
			return true
		}
		if r.Op == token.NEQ && match(r.X) && IsBoolConst(r.Y, !want) {
			return true
		}
		return false
	})
}

// GuardedByNil reports whether ins executes only when the value identified by match is
// nil (wantNil) or non-nil (!wantNil).
func GuardedByNil(ins ssa.Instruction, match func(ssa.Value) bool, wantNil bool) bool {
	return GuardedBy(ins, func(r Rel) bool {
		var other ssa.Value
		switch {
		case match(r.X):
			other = r.Y
		case match(r.Y):
			other = r.X
		default:
			return false
		}
		if !IsNilConst(other) {
			return false
		}
		return (r.Op == token.EQL && wantNil) || (r.Op == token.NEQ && !wantNil)
	})
}

// ---------------------------------------------------------------------------------------
// Post-dominators (used for control dependence of non-guard shapes and loop exits).

// PostDom holds post-dominator sets of one function over a virtual exit.
type PostDom struct {
	fn   *ssa.Function
	sets map[*ssa.BasicBlock]map[*ssa.BasicBlock]bool
}

// PostDominators computes post-dominator sets (iterative dataflow).
func (w *World) PostDominators(fn *ssa.Function) *PostDom {
	if pd, ok := w.pdomCache[fn]; ok {
		return pd
	}
	pd := computePostDom(fn)
	w.pdomCache[fn] = pd
	return pd
}

func computePostDom(fn *ssa.Function) *PostDom {
	pd := &PostDom{fn: fn, sets: map[*ssa.BasicBlock]map[*ssa.BasicBlock]bool{}}
	all := map[*ssa.BasicBlock]bool{}
	for _, b := range fn.Blocks {
		if b == fn.Recover {
			continue
		}
		all[b] = true
	}
	for b := range all {
		if len(b.Succs) == 0 {
			pd.sets[b] = map[*ssa.BasicBlock]bool{b: true}
		} else {
			s := map[*ssa.BasicBlock]bool{}
			for x := range all {
				s[x] = true
			}
			pd.sets[b] = s
		}
	}
	changed := true
	for changed {
		changed = false
		for i := len(fn.Blocks) - 1; i >= 0; i-- {
			b := fn.Blocks[i]
			if !all[b] || len(b.Succs) == 0 {
				continue
			}
			var inter map[*ssa.BasicBlock]bool
			for _, s := range b.Succs {
				ss := pd.sets[s]
				if inter == nil {
					inter = map[*ssa.BasicBlock]bool{}
					for x := range ss {
						inter[x] = true
					}
				} else {
					for x := range inter {
						if !ss[x] {
							delete(inter, x)
						}
					}
				}
			}
			if inter == nil {
				inter = map[*ssa.BasicBlock]bool{}
			}
			inter[b] = true
			if len(inter) != len(pd.sets[b]) {
				pd.sets[b] = inter
				changed = true
			}
		}
	}
	return pd
}

// PostDominates reports whether a post-dominates b (every path from b to an exit passes a).
func (pd *PostDom) PostDominates(a, b *ssa.BasicBlock) bool {
	return pd.sets[b][a]
}

// ---------------------------------------------------------------------------------------
// Loops

// InLoop reports whether block b lies on a CFG cycle.
func InLoop(b *ssa.BasicBlock) bool {
	seen := map[*ssa.BasicBlock]bool{}
	work := append([]*ssa.BasicBlock{}, b.Succs...)
	for len(work) > 0 {
		x := work[len(work)-1]
		work = work[:len(work)-1]
		if x == b {
			return true
		}
		if seen[x] {
			continue
		}
		seen[x] = true
		work = append(work, x.Succs...)
	}
	return false
}

// HasLoop reports whether fn contains any cycle.
func HasLoop(fn *ssa.Function) bool {
	for _, b := range fn.Blocks {
		if InLoop(b) {
			return true
		}
	}
	return false
}

// ReachFromBlock searches from the first instruction of block b.
func ReachFromBlock(b *ssa.BasicBlock, q PathQuery) ssa.Instruction { return search(b, 0, q) }

// BoolBranch describes an If deciding on boolean value V: OnTrue is the successor taken
// when V is true, OnFalse when V is false.
type BoolBranch struct {
	If      *ssa.If
	OnTrue  *ssa.BasicBlock
	OnFalse *ssa.BasicBlock
}

// BranchesOn returns the If instructions of v's function whose condition is v itself,
// its negation, or a comparison of v with a boolean constant.
func BranchesOn(v ssa.Value) []BoolBranch {
	var fn *ssa.Function
	if ins, ok := v.(ssa.Instruction); ok {
		fn = ins.Parent()
	} else if p, ok := v.(*ssa.Parameter); ok {
		fn = p.Parent()
	}
	if fn == nil {
		return nil
	}
	var out []BoolBranch
	for _, b := range fn.Blocks {
		if len(b.Instrs) == 0 {
			continue
		}
		iff, ok := b.Instrs[len(b.Instrs)-1].(*ssa.If)
		if !ok {
			continue
		}
		r := RelOf(iff.Cond, true)
		if r.X != v {
			continue
		}
		c, ok := r.Y.(*ssa.Const)
		if !ok || c.Value == nil || c.Value.Kind() != constant.Bool {
			continue
		}
		val := constant.BoolVal(c.Value)
		if r.Op == token.NEQ {
			val = !val
		} else if r.Op != token.EQL {
			continue
		}
		// cond true  <=> v == val
		if val {
			out = append(out, BoolBranch{iff, b.Succs[0], b.Succs[1]})
		} else {
			out = append(out, BoolBranch{iff, b.Succs[1], b.Succs[0]})
		}
	}
	return out
}

// NilBranch describes an If comparing value V with nil.
type NilBranch struct {
	If       *ssa.If
	OnNil    *ssa.BasicBlock
	OnNonNil *ssa.BasicBlock
}

// BranchesOnNil returns the If instructions of v's function that compare v with nil.
func BranchesOnNil(v ssa.Value) []NilBranch {
	ins, ok := v.(ssa.Instruction)
	if !ok {
		return nil
	}
	var out []NilBranch
	for _, b := range ins.Parent().Blocks {
		if len(b.Instrs) == 0 {
			continue
		}
		iff, ok := b.Instrs[len(b.Instrs)-1].(*ssa.If)
		if !ok {
			continue
		}
		r := RelOf(iff.Cond, true)
		x, y := r.X, r.Y
		if IsNilConst(x) {
			x, y = y, x
		}
		if x != v || !IsNilConst(y) {
			continue
		}
		switch r.Op {
		case token.EQL:
			out = append(out, NilBranch{iff, b.Succs[0], b.Succs[1]})
		case token.NEQ:
			out = append(out, NilBranch{iff, b.Succs[1], b.Succs[0]})
		}
	}
	return out
}

// LoopCarriedCell reports whether a is a local cell that lives across the iterations of a
// loop: allocated outside any loop but assigned inside one (e.g. the iteration variable of a
// `for … range` under pre-1.22 loop-variable semantics, which go/ssa follows from go.mod's
// language version). The address of such a cell, or a closure capturing it, must not
// outlive the iteration.
func LoopCarriedCell(a *ssa.Alloc) bool {
	if a == nil || InLoop(a.Block()) || a.Referrers() == nil {
		return false
	}
	for _, r := range *a.Referrers() {
		if st, ok := r.(*ssa.Store); ok && st.Addr == ssa.Value(a) && InLoop(st.Block()) {
			return true
		}
	}
	return false
}

// GoCapturesOfLoopCells returns the `go` statements of fn, located in a loop, whose
// function value is a closure capturing a loop-carried cell (the goroutine may run after the
// cell was overwritten by a later iteration).
func GoCapturesOfLoopCells(fn *ssa.Function) []*ssa.Go {
	var out []*ssa.Go
	for _, b := range fn.Blocks {
		for _, ins := range b.Instrs {
			g, ok := ins.(*ssa.Go)
			if !ok || !InLoop(b) {
				continue
			}
			mc, ok := g.Call.Value.(*ssa.MakeClosure)
			if !ok {
				continue
			}
			for _, bd := range mc.Bindings {
				if a, ok := bd.(*ssa.Alloc); ok && LoopCarriedCell(a) {
					out = append(out, g)
					break
				}
			}
		}
	}
	return out
}
