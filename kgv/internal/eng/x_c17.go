package eng

// Fact-carrying path search: the instruction-level reachability of cfg.go, made path
// sensitive for boolean values. A query may *assume* truth values of SSA booleans (call
// results, field loads, comparisons); along each explored path the truth values of boolean
// phis are derived from the edge they were entered through, `!x` and bool ==/!= are folded,
// and an If whose condition is known is followed on the feasible edge only.
//
// This decides facts such as "if r == "*" was taken, every reachable return yields true"
// for both the flag idiom (`matchAll = true; break … if matchAll {…}`, also with `continue`
// instead of `break`) and the early-return idiom, and "the generation is bumped whenever
// DeepEqual(spec…) is false" for both `if !a || !b {…}` and `changed := !a || !b; if changed`.

import (
	"go/constant"
	"go/token"
	"sort"
	"strconv"
	"strings"

	"golang.org/x/tools/go/ssa"
)

// BoolFacts maps SSA boolean values to their truth value.
type BoolFacts map[ssa.Value]bool

// KnownFn evaluates a boolean SSA value under the facts of the current path.
type KnownFn func(v ssa.Value) (val bool, ok bool)

// FactQuery describes a fact-carrying forward search.
type FactQuery struct {
	// Assume holds facts taken as given on every path (SSA values are assigned once, so a
	// fact about a non-phi value does not depend on the program point).
	Assume BoolFacts
	// Target is satisfied when a path reaches such an instruction.
	Target func(ins ssa.Instruction, known KnownFn) bool
	// Avoid cuts a path at such an instruction.
	Avoid func(ins ssa.Instruction) bool
	// CutEdge removes CFG edge from -> from.Succs[succ].
	CutEdge func(from *ssa.BasicBlock, succ int) bool
}

type c17FactState struct {
	b     *ssa.BasicBlock
	start int
	facts BoolFacts // facts of phis along this path
}

func evalBool(v ssa.Value, assume, facts BoolFacts, depth int) (bool, bool) {
	if v == nil || depth > 8 {
		return false, false
	}
	if c, ok := v.(*ssa.Const); ok {
		if c.Value != nil && c.Value.Kind() == constant.Bool {
			return constant.BoolVal(c.Value), true
		}
		return false, false
	}
	if b, ok := assume[v]; ok {
		return b, true
	}
	if b, ok := facts[v]; ok {
		return b, true
	}
	switch n := v.(type) {
	case *ssa.UnOp:
		if n.Op == token.NOT {
			if x, ok := evalBool(n.X, assume, facts, depth+1); ok {
				return !x, true
			}
		}
	case *ssa.BinOp:
		if n.Op == token.EQL || n.Op == token.NEQ {
			x, okx := evalBool(n.X, assume, facts, depth+1)
			y, oky := evalBool(n.Y, assume, facts, depth+1)
			if okx && oky {
				return (x == y) == (n.Op == token.EQL), true
			}
		}
	}
	return false, false
}

func c17FactKey(b *ssa.BasicBlock, start int, f BoolFacts) string {
	var parts []string
	for v, val := range f {
		parts = append(parts, v.Name()+"="+strconv.FormatBool(val))
	}
	sort.Strings(parts)
	return strconv.Itoa(b.Index) + ":" + strconv.Itoa(start) + ":" + strings.Join(parts, ",")
}

// predIndex returns the index in to.Preds that corresponds to edge from.Succs[succ] -> to.
func predIndex(from *ssa.BasicBlock, succ int) int {
	to := from.Succs[succ]
	nth := 0
	for i := 0; i < succ; i++ {
		if from.Succs[i] == to {
			nth++
		}
	}
	for i, p := range to.Preds {
		if p == from {
			if nth == 0 {
				return i
			}
			nth--
		}
	}
	return -1
}

// enter computes the phi facts after traversing edge from.Succs[succ].
func enterFacts(from *ssa.BasicBlock, succ int, assume, facts BoolFacts) BoolFacts {
	to := from.Succs[succ]
	pi := predIndex(from, succ)
	out := BoolFacts{}
	for k, v := range facts {
		out[k] = v
	}
	type upd struct {
		phi *ssa.Phi
		val bool
		ok  bool
	}
	var ups []upd
	for _, ins := range to.Instrs {
		phi, ok := ins.(*ssa.Phi)
		if !ok {
			break
		}
		if pi < 0 || pi >= len(phi.Edges) {
			ups = append(ups, upd{phi, false, false})
			continue
		}
		val, known := evalBool(phi.Edges[pi], assume, facts, 0) // simultaneous assignment: old facts
		ups = append(ups, upd{phi, val, known})
	}
	for _, u := range ups {
		if u.ok {
			out[u.phi] = u.val
		} else {
			delete(out, u.phi)
		}
	}
	return out
}

func factSearch(init []c17FactState, q FactQuery) ssa.Instruction {
	seen := map[string]bool{}
	work := append([]c17FactState{}, init...)
	for len(work) > 0 {
		st := work[len(work)-1]
		work = work[:len(work)-1]
		k := c17FactKey(st.b, st.start, st.facts)
		if seen[k] {
			continue
		}
		seen[k] = true
		known := func(v ssa.Value) (bool, bool) { return evalBool(v, q.Assume, st.facts, 0) }
		cut := false
		for i := st.start; i < len(st.b.Instrs); i++ {
			ins := st.b.Instrs[i]
			if q.Avoid != nil && q.Avoid(ins) {
				cut = true
				break
			}
			if q.Target != nil && q.Target(ins, known) {
				return ins
			}
		}
		if cut || len(st.b.Instrs) == 0 {
			continue
		}
		only := -1
		if iff, ok := st.b.Instrs[len(st.b.Instrs)-1].(*ssa.If); ok {
			if v, ok := known(iff.Cond); ok {
				if v {
					only = 0
				} else {
					only = 1
				}
			}
		}
		for si := range st.b.Succs {
			if only >= 0 && si != only {
				continue
			}
			if q.CutEdge != nil && q.CutEdge(st.b, si) {
				continue
			}
			work = append(work, c17FactState{st.b.Succs[si], 0, enterFacts(st.b, si, q.Assume, st.facts)})
		}
	}
	return nil
}

// FactReachFromEntry searches from the function entry.
func FactReachFromEntry(fn *ssa.Function, q FactQuery) ssa.Instruction {
	if len(fn.Blocks) == 0 {
		return nil
	}
	return factSearch([]c17FactState{{fn.Blocks[0], 0, BoolFacts{}}}, q)
}

// FactReachAfter searches from the instruction following ins.
func FactReachAfter(ins ssa.Instruction, q FactQuery) ssa.Instruction {
	return factSearch([]c17FactState{{ins.Block(), InstrIndex(ins) + 1, BoolFacts{}}}, q)
}

// FactReachFromEdge searches the paths that start by traversing from.Succs[succ].
func FactReachFromEdge(from *ssa.BasicBlock, succ int, q FactQuery) ssa.Instruction {
	if succ < 0 || succ >= len(from.Succs) {
		return nil
	}
	if q.CutEdge != nil && q.CutEdge(from, succ) {
		return nil
	}
	return factSearch([]c17FactState{{from.Succs[succ], 0, enterFacts(from, succ, q.Assume, BoolFacts{})}}, q)
}

// EdgeGuards returns the guards that hold when control flows along pred -> to: the guards
// of pred plus, when pred ends in an If with distinct successors, the branch taken.
func EdgeGuards(pred, to *ssa.BasicBlock) []Guard {
	gs := append([]Guard{}, GuardsOfBlock(pred)...)
	if len(pred.Instrs) == 0 {
		return gs
	}
	if iff, ok := pred.Instrs[len(pred.Instrs)-1].(*ssa.If); ok && len(pred.Succs) == 2 && pred.Succs[0] != pred.Succs[1] {
		if pred.Succs[0] == to {
			gs = append(gs, Guard{iff, true})
		} else if pred.Succs[1] == to {
			gs = append(gs, Guard{iff, false})
		}
	}
	return gs
}

// CondHolds interprets guard g with respect to boolean SSA value v: it returns
// (truth of v, true) when the guard's condition is v or a negation of v.
func CondHolds(g Guard, v ssa.Value) (bool, bool) {
	cond := g.If.Cond
	branch := g.Branch
	for {
		if cond == v {
			return branch, true
		}
		if u, ok := cond.(*ssa.UnOp); ok && u.Op == token.NOT {
			cond = u.X
			branch = !branch
			continue
		}
		return false, false
	}
}

// GuardedLeaf is a non-phi value a phi web may take, with the guards of the edges it
// travelled through.
type GuardedLeaf struct {
	V      ssa.Value
	Guards []Guard
}

// PhiLeaves expands v through (nested) phis into the values it may take; each leaf carries
// the union of EdgeGuards of the phi edges on the way (control conditions under which that
// value is selected). A non-phi value is its own single leaf. Phi cycles are cut.
func PhiLeaves(v ssa.Value) []GuardedLeaf {
	var out []GuardedLeaf
	seen := map[*ssa.Phi]bool{}
	var walk func(v ssa.Value, gs []Guard)
	walk = func(v ssa.Value, gs []Guard) {
		phi, ok := v.(*ssa.Phi)
		if !ok {
			out = append(out, GuardedLeaf{v, gs})
			return
		}
		if seen[phi] {
			return
		}
		seen[phi] = true
		for i, e := range phi.Edges {
			if i >= len(phi.Block().Preds) {
				continue
			}
			ng := append(append([]Guard{}, gs...), EdgeGuards(phi.Block().Preds[i], phi.Block())...)
			walk(e, ng)
		}
	}
	walk(v, nil)
	return out
}
