package eng

import (
	"fmt"
	"sort"

	"golang.org/x/tools/go/analysis"
	"golang.org/x/tools/go/analysis/checker"
	"golang.org/x/tools/go/analysis/passes/assign"
	"golang.org/x/tools/go/analysis/passes/atomic"
	"golang.org/x/tools/go/analysis/passes/bools"
	"golang.org/x/tools/go/analysis/passes/copylock"
	"golang.org/x/tools/go/analysis/passes/loopclosure"
	"golang.org/x/tools/go/analysis/passes/nilness"
	"golang.org/x/tools/go/analysis/passes/reflectvaluecompare"
	"golang.org/x/tools/go/analysis/passes/unusedresult"
	"golang.org/x/tools/go/packages"
)

// StockDiagnostics runs a fixed set of fact-free x/tools vet passes (nilness, copylock,
// atomic, bools, assign, loopclosure, unusedresult, reflectvaluecompare) in-process on the
// already loaded packages with the given paths. The diagnostics are a cross-reference for
// the thorough tier (recorded as notes in the evidence); they never decide an obligation.
func (w *World) StockDiagnostics(paths []string) ([]string, error) {
	var pkgs []*packages.Package
	for _, p := range paths {
		if pk, ok := w.All[p]; ok {
			pkgs = append(pkgs, pk)
		}
	}
	if len(pkgs) == 0 {
		return nil, fmt.Errorf("no packages")
	}
	as := []*analysis.Analyzer{nilness.Analyzer, copylock.Analyzer, atomic.Analyzer, bools.Analyzer, assign.Analyzer,
		loopclosure.Analyzer, unusedresult.Analyzer, reflectvaluecompare.Analyzer}
	g, err := checker.Analyze(as, pkgs, nil)
	if err != nil {
		return nil, err
	}
	var out []string
	for _, r := range g.Roots {
		if r.Err != nil {
			out = append(out, fmt.Sprintf("%s on %s: error: %v", r.Analyzer.Name, r.Package.PkgPath, r.Err))
			continue
		}
		for _, d := range r.Diagnostics {
			f, l := w.Pos(d.Pos)
			out = append(out, fmt.Sprintf("%s: %s:%d: %s", r.Analyzer.Name, f, l, d.Message))
		}
	}
	sort.Strings(out)
	return out, nil
}
