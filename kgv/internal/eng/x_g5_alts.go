package eng

import (
	"go/types"

	"golang.org/x/tools/go/ssa"
)

// ---------------------------------------------------------------------------------------
// Additions made while generalising C05/C06/C09/C11 to compound refactorings (wave 2).
//
// Two recurring shapes are not covered by the yes/no lifting of interproc.go:
//
//   - "if/else that assigns a variable → helper returning the value(s)": the value a rule
//     looks at (the arguments of Resize, the cap handed to a clamp, the set ranged over) is
//     now a result of a helper with several returns, often one component of a tuple whose
//     components belong together (`size, burst, limited := limitsOf(schema)`). ResultAlts
//     expands such a value into the values returned, one alternative per return statement,
//     keeping the sibling results of the same return so that a rule can judge the components
//     of one alternative together; Frame binds the helper's parameters to the arguments of the
//     call that was expanded (context-sensitive, unlike Slicer.WithUp).
//
//   - rules of the form "under condition X every path does Y" decided by forcing with the
//     path-enumerating interpreter need to look at the abstract value of a call's receiver or
//     argument while the path runs: Interp.Eval exposes the evaluation to PinCall visitors.

// Eval returns the abstract value of v in the state of the path being enumerated. It is meant
// for PinCall / PinLoad callbacks that act as visitors (e.g. "which limiter is this Sync
// called on, on this very path?").
// (declared in x_g4_trace.go; the nil-tolerant variant lives there now)

// ResultAlt is one way a result of a helper call is produced: by return statement Ret of
// Callee, which yields Val in the result position asked for and All in all positions.
type ResultAlt struct {
	Call   *ssa.Call
	Callee *ssa.Function
	Idx    int
	Ret    *ssa.Return
	Val    ssa.Value
	All    []ssa.Value
}

// ResultAlts expands v — the result of a direct call of a repository function with a body, or
// one component (Extract) of its result tuple — into the values returned by the callee, one
// alternative per return statement (the synthetic recover block and unreachable returns are
// skipped). It returns nil when v is not such a value.
func ResultAlts(v ssa.Value) []ResultAlt {
	call, idx := CallResultOf(v)
	if call == nil || call.Call.IsInvoke() {
		return nil
	}
	callee := call.Call.StaticCallee()
	if callee == nil {
		if mc, ok := call.Call.Value.(*ssa.MakeClosure); ok {
			callee, _ = mc.Fn.(*ssa.Function)
		}
	}
	if callee == nil || !Analysable(callee) {
		return nil
	}
	if idx < 0 {
		idx = 0
	}
	if idx >= callee.Signature.Results().Len() {
		return nil
	}
	var out []ResultAlt
	for _, b := range callee.Blocks {
		if b == callee.Recover || len(b.Instrs) == 0 {
			continue
		}
		r, ok := b.Instrs[len(b.Instrs)-1].(*ssa.Return)
		if !ok || !Reachable(callee, b) {
			continue
		}
		res := ReturnResults(r)
		if idx >= len(res) {
			return nil
		}
		out = append(out, ResultAlt{Call: call, Callee: callee, Idx: idx, Ret: r, Val: res[idx], All: res})
	}
	return out
}

// Frame binds the parameters of a function entered through one particular call (the chain of
// calls an expansion descended through, innermost first).
type Frame struct {
	Call   ssa.CallInstruction
	Parent *Frame
}

// Push returns the frame of the callee of call, entered from f.
func (f *Frame) Push(call ssa.CallInstruction) *Frame { return &Frame{Call: call, Parent: f} }

func frameCallee(call ssa.CallInstruction) *ssa.Function {
	if call == nil {
		return nil
	}
	if c := call.Common().StaticCallee(); c != nil {
		return c
	}
	if mc, ok := call.Common().Value.(*ssa.MakeClosure); ok {
		fn, _ := mc.Fn.(*ssa.Function)
		return fn
	}
	return nil
}

// Arg returns the argument bound to parameter p by the innermost frame that entered p's
// function, together with the frame the argument lives in.
func (f *Frame) Arg(p *ssa.Parameter) (arg ssa.Value, up *Frame, ok bool) {
	for x := f; x != nil; x = x.Parent {
		if frameCallee(x.Call) != p.Parent() {
			continue
		}
		i := ParamIndex(p)
		if i < 0 || i >= len(x.Call.Common().Args) {
			return nil, nil, false
		}
		return x.Call.Common().Args[i], x.Parent, true
	}
	return nil, nil, false
}

// Resolve rewrites v while it is a parameter bound by the frame chain (or, once the chain is
// exhausted, a parameter of a liftable helper all of whose call sites agree on the argument,
// see World.ResolveUp). Value-preserving wrappers (ChangeType, single-store spills) are not
// stripped: the result is an SSA value whose access path can be taken with AccessPath.
func (f *Frame) Resolve(v ssa.Value) (ssa.Value, *Frame) {
	for i := 0; i < 4*LiftDepth; i++ {
		p, ok := v.(*ssa.Parameter)
		if !ok {
			break
		}
		if a, up, bound := f.Arg(p); bound {
			v, f = a, up
			continue
		}
		if Current != nil {
			if r := Current.ResolveUp(v); r != v {
				v, f = r, nil
				continue
			}
		}
		break
	}
	return v, f
}

// AccessPathIn is AccessPath continued through the parameters bound by the frame chain: the
// path of v inside a helper, prefixed by the path of the argument its root parameter is bound
// to, and so on up to the outermost caller reached. hops lists the values whose paths were
// concatenated (innermost first).
func (f *Frame) AccessPathIn(v ssa.Value) (root ssa.Value, path []string, hops []ssa.Value) {
	cur, fr := v, f
	for i := 0; i < 4*LiftDepth; i++ {
		r, p := AccessPath(cur)
		path = append(append([]string{}, p...), path...)
		hops = append(hops, cur)
		root = r
		prm, ok := r.(*ssa.Parameter)
		if !ok {
			return
		}
		if a, up, bound := fr.Arg(prm); bound {
			cur, fr = a, up
			continue
		}
		if Current != nil {
			if x := Current.ResolveUp(r); x != r {
				cur, fr = x, nil
				continue
			}
		}
		return
	}
	return
}

// IsBoolResult reports whether result position idx of fn is a boolean.
func IsBoolResult(fn *ssa.Function, idx int) bool {
	if fn == nil || idx < 0 || idx >= fn.Signature.Results().Len() {
		return false
	}
	b, ok := fn.Signature.Results().At(idx).Type().Underlying().(*types.Basic)
	return ok && b.Kind() == types.Bool
}

// ---------------------------------------------------------------------------------------
// Joint alternatives of a group of values.

// ValueCase is one joint alternative of a group of values: Vals[i] is the value that stands
// for the i-th member of the group in this alternative, Frames[i] the call frame it lives in
// (nil: the function the group was taken from).
type ValueCase struct {
	Vals   []ssa.Value
	Frames []*Frame
}

func stripNumConv(v ssa.Value) ssa.Value {
	for {
		switch n := v.(type) {
		case *ssa.Convert:
			v = n.X
		case *ssa.ChangeType:
			v = n.X
		default:
			return v
		}
	}
}

// ExpandCases expands a group of values that are computed together — the arguments of one
// call, the operands of one comparison — into joint alternatives:
//
//   - members that are results of the same helper call (`a, b, ok := limits(x)`; numeric
//     conversions in between are looked through) are replaced, per return statement of the
//     helper, by the values that return yields (ResultAlts) — the components of one return
//     stay together;
//   - members that are phis of the same block (`if … { a, b = x, y } else { a, b = u, v }`) are
//     replaced, per incoming edge, by the values flowing in over that edge;
//   - a member that is a parameter bound by its frame is replaced by the argument.
//
// The expansion is repeated on the results (depth levels, at most 64 cases). Members that
// cannot be expanded are kept as they are. The alternatives over-approximate the executions:
// a rule that accepts every alternative accepts every execution; no path condition is attached.
func ExpandCases(vals []ssa.Value, frames []*Frame, depth int) []ValueCase {
	if frames == nil {
		frames = make([]*Frame, len(vals))
	}
	budget := 64
	return expandCases(vals, frames, depth, &budget, map[*ssa.Phi]bool{})
}

func expandCases(vals []ssa.Value, frames []*Frame, depth int, budget *int, busy map[*ssa.Phi]bool) []ValueCase {
	same := []ValueCase{{Vals: vals, Frames: frames}}
	if depth <= 0 || *budget <= 0 {
		return same
	}
	clone := func() ([]ssa.Value, []*Frame) {
		return append([]ssa.Value{}, vals...), append([]*Frame{}, frames...)
	}
	for i, v := range vals {
		core := stripNumConv(v)
		if p, ok := core.(*ssa.Parameter); ok {
			if a, up, bound := frames[i].Arg(p); bound {
				nv, nf := clone()
				nv[i], nf[i] = a, up
				return expandCases(nv, nf, depth, budget, busy)
			}
			continue
		}
		if alts := ResultAlts(core); len(alts) > 0 {
			var out []ValueCase
			for _, alt := range alts {
				nv, nf := clone()
				for j, w := range vals {
					cj, ij := CallResultOf(stripNumConv(w))
					if cj != alt.Call || frames[j] != frames[i] {
						continue
					}
					if ij < 0 {
						ij = 0
					}
					if ij < len(alt.All) {
						nv[j], nf[j] = alt.All[ij], frames[i].Push(alt.Call)
					}
				}
				*budget--
				out = append(out, expandCases(nv, nf, depth-1, budget, busy)...)
			}
			return out
		}
		if phi, ok := core.(*ssa.Phi); ok && !busy[phi] {
			busy[phi] = true
			var out []ValueCase
			for e := range phi.Edges {
				nv, nf := clone()
				for j, w := range vals {
					pj, isPhi := stripNumConv(w).(*ssa.Phi)
					if !isPhi || pj.Block() != phi.Block() || frames[j] != frames[i] || e >= len(pj.Edges) {
						continue
					}
					nv[j] = pj.Edges[e]
				}
				*budget--
				out = append(out, expandCases(nv, nf, depth-1, budget, busy)...)
			}
			delete(busy, phi)
			return out
		}
	}
	return same
}

// MemKeys returns the access paths of the memory cells the path has written (or refined by a
// comparison) so far.
func (s *State) MemKeys() []string {
	out := make([]string, 0, len(s.mem))
	for k := range s.mem {
		out = append(out, k)
	}
	return out
}

// SetMem writes an abstract value into the memory of the path. Besides modelling a store it
// lets a PinCall visitor leave a note that travels with the path (states are cloned at every
// branch): use a key that cannot be an access path, e.g. "note:…".
func (s *State) SetMem(path string, av AV) { s.mem[path] = av }
