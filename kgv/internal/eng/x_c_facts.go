package eng

import (
	"go/token"

	"golang.org/x/tools/go/ssa"
)

// ---------------------------------------------------------------------------------------
// Deep guards for rule predicates (layer over FactsAt / ImpliedFacts of x_c10.go).
//
// GuardsOf + Guard.Rel() see `overLimit := overflowed > 0; if overLimit {…}` (in SSA the local
// IS the comparison) but not conditions the builder materialises as a boolean phi or hides in
// a predicate helper:
//
//	switch { case a && b: … }                                     cond = phi [false, b]
//	ok := false; if p { if q { ok = true } }; if ok { … }         cond = phi [false, false, true]
//	if r.leads(name) { … }                                        cond = call of a bool helper
//
// FactsAt expands those. HoldsAt is GuardedBy over the expanded facts, still lifted through the
// guard sites of extracted helpers; GuardLeaves gives the expansion of one guard together with
// a flag telling whether the expansion is exact (equivalent to the guard as far as
// dominating-edge reasoning can tell), for rules that must account for EVERY condition a
// construct depends on.

// relOfFact states a fact over call-site values (parameters of expanded predicate helpers are
// resolved to the arguments of the call).
func relOfFact(f Fact) Rel { return Rel{f.Rel.Op, f.X(), f.Y()} }

// RelsAt returns the relations known to hold whenever ins executes (intra-procedural, with
// boolean phis and predicate helpers expanded).
func RelsAt(ins ssa.Instruction) []Rel {
	if ins == nil || ins.Block() == nil {
		return nil
	}
	var out []Rel
	for _, f := range FactsAt(ins, LiftDepth) {
		out = append(out, relOfFact(f))
	}
	return out
}

// ImpliedRels returns the relations implied by boolean value cond having truth value branch.
func ImpliedRels(cond ssa.Value, branch bool) []Rel {
	var out []Rel
	for _, f := range ImpliedFacts(cond, branch, LiftDepth) {
		out = append(out, relOfFact(f))
	}
	return out
}

// EdgeRels returns the relations known to hold when control passes from block `from` to its
// successor number succIdx: the facts of `from` plus those implied by the branch taken.
func EdgeRels(from *ssa.BasicBlock, succIdx int) []Rel {
	if from == nil || succIdx < 0 || succIdx >= len(from.Succs) || len(from.Instrs) == 0 {
		return nil
	}
	out := RelsAt(from.Instrs[0])
	if iff, ok := from.Instrs[len(from.Instrs)-1].(*ssa.If); ok && len(from.Succs) == 2 && from.Succs[0] != from.Succs[1] {
		out = append(out, ImpliedRels(iff.Cond, succIdx == 0)...)
	}
	return out
}

// HoldsAt reports whether some relation that holds whenever ins executes satisfies pred: a
// guard of ins resolved through named condition locals, short-circuit values and predicate
// helpers, or — when ins sits in an extracted helper / callback — a relation that holds at
// every guard site of its function (recursively, depth ≤ LiftDepth).
func HoldsAt(ins ssa.Instruction, pred func(Rel) bool) bool {
	return holdsAt(ins, pred, LiftDepth)
}

func holdsAt(ins ssa.Instruction, pred func(Rel) bool, depth int) bool {
	if ins == nil || ins.Block() == nil {
		return false
	}
	for _, r := range RelsAt(ins) {
		if pred(r) {
			return true
		}
	}
	if Current == nil || depth <= 0 || ins.Parent() == nil {
		return false
	}
	sites := Current.GuardSites(ins.Parent())
	if len(sites) == 0 {
		return false
	}
	for _, s := range sites {
		if !holdsAt(s, pred, depth-1) {
			return false
		}
	}
	return true
}

// HoldsAtBool: ins executes only when the boolean value identified by match is `want`.
func HoldsAtBool(ins ssa.Instruction, match func(ssa.Value) bool, want bool) bool {
	return HoldsAt(ins, func(r Rel) bool {
		if r.Op == token.EQL && match(r.X) && IsBoolConst(r.Y, want) {
			return true
		}
		return r.Op == token.NEQ && match(r.X) && IsBoolConst(r.Y, !want)
	})
}

// HoldsAtNil: ins executes only when the value identified by match is nil (wantNil) or
// non-nil (!wantNil).
func HoldsAtNil(ins ssa.Instruction, match func(ssa.Value) bool, wantNil bool) bool {
	return HoldsAt(ins, func(r Rel) bool {
		var other ssa.Value
		switch {
		case match(r.X):
			other = r.Y
		case match(r.Y):
			other = r.X
		default:
			return false
		}
		if !IsNilConst(other) {
			return false
		}
		return (r.Op == token.EQL && wantNil) || (r.Op == token.NEQ && !wantNil)
	})
}

// NormRel orients a relation with a constant operand so that the constant is Y
// (`0 < x` becomes `x > 0`).
func NormRel(r Rel) Rel {
	if _, isC := r.X.(*ssa.Const); isC {
		if _, isC2 := r.Y.(*ssa.Const); !isC2 {
			return Rel{FlipOp(r.Op), r.Y, r.X}
		}
	}
	return r
}

// GuardLeaves expands one guard into leaf relations. When exact is true the guard is
// equivalent to the conjunction of the leaves (each boolean phi on the way had exactly one
// incoming edge that can produce the wanted truth value, so nothing was approximated by an
// intersection) and the opaque intermediate facts (`phi == true`) are left out; otherwise
// the result is just g.Rel().
func GuardLeaves(g Guard) (leaves []Rel, exact bool) {
	leaves, exact = condLeaves(g.If.Cond, g.Branch, map[ssa.Value]bool{}, 0)
	if !exact {
		return []Rel{g.Rel()}, false
	}
	return leaves, true
}

func condLeaves(cond ssa.Value, branch bool, busy map[ssa.Value]bool, depth int) ([]Rel, bool) {
	for {
		if u, ok := cond.(*ssa.UnOp); ok && u.Op == token.NOT {
			cond = u.X
			branch = !branch
			continue
		}
		break
	}
	if depth > 8 || busy[cond] {
		return nil, false
	}
	switch n := cond.(type) {
	case *ssa.BinOp:
		switch n.Op {
		case token.EQL, token.NEQ:
			// comparison of a boolean with a boolean constant: the boolean itself
			for _, side := range [][2]ssa.Value{{n.X, n.Y}, {n.Y, n.X}} {
				if isBoolConstVal(side[1]) && isBoolType(side[0].Type()) {
					want := IsBoolConst(side[1], true) == (n.Op == token.EQL)
					if !branch {
						want = !want
					}
					return condLeaves(side[0], want, busy, depth+1)
				}
			}
			return []Rel{RelOf(n, branch)}, true
		case token.LSS, token.LEQ, token.GTR, token.GEQ:
			return []Rel{RelOf(n, branch)}, true
		}
		return []Rel{RelOf(cond, branch)}, true
	case *ssa.Phi:
		if !isBoolType(n.Type()) {
			return []Rel{RelOf(cond, branch)}, true
		}
		busy[cond] = true
		defer delete(busy, cond)
		feasible := -1
		for i, e := range n.Edges {
			if IsBoolConst(e, !branch) {
				continue
			}
			if feasible >= 0 {
				return nil, false // a disjunction
			}
			feasible = i
		}
		if feasible < 0 || feasible >= len(n.Block().Preds) {
			return nil, false
		}
		pred := n.Block().Preds[feasible]
		var out []Rel
		if e := n.Edges[feasible]; !IsBoolConst(e, branch) {
			sub, ok := condLeaves(e, branch, busy, depth+1)
			if !ok {
				return nil, false
			}
			out = append(out, sub...)
		}
		// having come through that edge: the branch taken out of pred and pred's own guards
		if iff, ok := pred.Instrs[len(pred.Instrs)-1].(*ssa.If); ok && len(pred.Succs) == 2 && pred.Succs[0] != pred.Succs[1] {
			sub, ok := condLeaves(iff.Cond, pred.Succs[0] == n.Block(), busy, depth+1)
			if !ok {
				return nil, false
			}
			out = append(out, sub...)
		}
		for _, pg := range GuardsOfBlock(pred) {
			// guards that also dominate the phi's block are accounted for by the caller
			if guardDominates(pg, n.Block()) {
				continue
			}
			sub, ok := condLeaves(pg.If.Cond, pg.Branch, busy, depth+1)
			if !ok {
				return nil, false
			}
			out = append(out, sub...)
		}
		return out, true
	}
	return []Rel{RelOf(cond, branch)}, true
}

func guardDominates(g Guard, b *ssa.BasicBlock) bool {
	for _, x := range GuardsOfBlock(b) {
		if x.If == g.If && x.Branch == g.Branch {
			return true
		}
	}
	return false
}

func isBoolConstVal(v ssa.Value) bool {
	return IsBoolConst(v, true) || IsBoolConst(v, false)
}
