package eng

import (
	"go/constant"
	"go/token"
	"go/types"

	"golang.org/x/tools/go/ssa"
)

// ---------------------------------------------------------------------------------------
// Traced forcing (added for C04): the path-enumerating interpreter with an event log.
//
// Interp.Run answers "what does every path return / which calls does it make". Rules of the
// form "under condition X every execution does Y before Z" also need to know WHERE on the
// path X was decided, in which calling context a call was made (to map a helper's parameters
// back to the caller's values) and which abstract values a call received. Tracer runs the
// same abstract semantics (it reuses Interp's evaluation, refinement and memory model) and
// records, per enumerated path, an ordered list of events:
//
//   - EvCall    a call / go / defer instruction executes (with the calling context, whether
//               its result was pinned, whether the callee was interpreted, and — on request —
//               the abstract values of its arguments);
//   - EvBranch  a conditional branch is taken;
//   - EvPinned  a load whose value is pinned (Interp.PinLoad) is consumed by a decision;
//   - EvReturn  an interpreted callee returns (which Return statement ended the activation, so
//               that a rule can follow a value through the helper that produced it ON THIS PATH
//               instead of joining all of the helper's returns).
//
// Because the whole path from the root function is enumerated, it does not matter in which
// helper of the root the condition, the answer or the continuation sit: extracting blocks
// into helpers that return flags or tuples, naming conditions, De Morgan flips and
// switch/if rewrites leave the event order unchanged.

// TraceKind is the kind of a trace event.
type TraceKind int

// Trace event kinds.
const (
	EvCall TraceKind = iota
	EvBranch
	EvPinned
	EvReturn
)

// TraceFrame is one activation on the interpreted call stack: Fn entered through Site (a
// call located in Parent.Fn). The root frame has Site == nil.
type TraceFrame struct {
	Fn     *ssa.Function
	Site   *ssa.Call
	Parent *TraceFrame
}

// Depth returns the number of frames below f (0 for the root).
func (f *TraceFrame) Depth() int {
	n := 0
	for x := f; x != nil && x.Parent != nil; x = x.Parent {
		n++
	}
	return n
}

// Find returns the innermost frame of the chain that executes fn (nil: none).
func (f *TraceFrame) Find(fn *ssa.Function) *TraceFrame {
	for x := f; x != nil; x = x.Parent {
		if x.Fn == fn {
			return x
		}
	}
	return nil
}

// Bind maps parameter p of a function on the chain to the argument it is bound to and the
// frame that argument lives in; ok is false for parameters of the root (or of a function that
// is not on the chain) and for free variables.
func (f *TraceFrame) Bind(p *ssa.Parameter) (arg ssa.Value, in *TraceFrame, ok bool) {
	if p == nil {
		return nil, nil, false
	}
	fr := f.Find(p.Parent())
	if fr == nil || fr.Site == nil || fr.Site.Call.IsInvoke() {
		return nil, nil, false
	}
	idx := ParamIndex(p)
	if idx < 0 || idx >= len(fr.Site.Call.Args) {
		return nil, nil, false
	}
	return fr.Site.Call.Args[idx], fr.Parent, true
}

// Resolve rewrites v, while it is a parameter bound by the chain (or an interface / type
// conversion, or a single-store spill), to the caller's value. It returns the value and the
// frame it lives in.
func (f *TraceFrame) Resolve(v ssa.Value) (ssa.Value, *TraceFrame) {
	fr := f
	for i := 0; i < 32 && v != nil; i++ {
		switch x := v.(type) {
		case *ssa.MakeInterface:
			v = x.X
			continue
		case *ssa.ChangeInterface:
			v = x.X
			continue
		case *ssa.ChangeType:
			v = x.X
			continue
		case *ssa.Parameter:
			if a, in, ok := fr.Bind(x); ok {
				v, fr = a, in
				continue
			}
		case *ssa.UnOp:
			if x.Op == token.MUL {
				if cell, ok := x.X.(*ssa.Alloc); ok {
					if sv := singleStore(cell); sv != nil {
						v = sv
						continue
					}
				}
			}
		}
		break
	}
	return v, fr
}

// TraceEvent is one recorded step of a path.
type TraceEvent struct {
	Kind  TraceKind
	Ins   ssa.Instruction // the call / go / defer, the If, the pinned load
	Frame *TraceFrame     // the activation that executes Ins
	// EvCall
	Args     []AV // abstract values of Common().Args (only when Tracer.WantArgs selects the call)
	Pinned   bool // the result was fixed by a pin
	Followed bool // the callee was interpreted: its events follow, in Frame's child
	// EvBranch
	Succ int
}

// Call returns the call instruction of an EvCall event (nil otherwise).
func (e TraceEvent) Call() ssa.CallInstruction {
	if e.Kind != EvCall {
		return nil
	}
	c, _ := e.Ins.(ssa.CallInstruction)
	return c
}

// TracedPath is one enumerated path with its event log.
type TracedPath struct {
	PathResult
	Events []TraceEvent
	// Approx is set when an interpreted callee was cut by a loop: its results are unknown and
	// both outcomes of a later test of them are explored.
	Approx bool
}

// Tracer configures a traced run. In supplies the abstract semantics (Depth, MaxPaths,
// PinCall, PinLoad, PinPath are honoured; In.FollowCall is used when Follow is nil).
type Tracer struct {
	In *Interp
	// Pin may fix the result of a call in its calling context (consulted before In.PinCall;
	// idx as for Interp.PinCall).
	Pin func(c *ssa.Call, idx int, fr *TraceFrame, st *State) (AV, bool)
	// Follow selects the callees that are interpreted (bodies in the repository / fixture).
	Follow func(c *ssa.Call, callee *ssa.Function, fr *TraceFrame) bool
	// WantArgs selects the calls whose argument values are recorded.
	WantArgs func(c ssa.CallInstruction) bool
	// Branches records EvBranch events.
	Branches bool
	// KnownResults gives calls that are not interpreted the nil-ness their callee's body
	// guarantees (a constructor every return of which yields a fresh object: non-nil), and loads
	// of package-level variables that are only ever assigned such values: non-nil.
	KnownResults bool

	cur   *TracedPath
	curFr *TraceFrame
}

// Eval returns the abstract value of v in state st (exported for rules that inspect the
// final state of a path).
func (in *Interp) Eval(v ssa.Value, st *State) AV {
	if v == nil || st == nil {
		return AV{}
	}
	return in.eval(v, st)
}

type tcont func(st *State, pr *TracedPath)

func copyTP(pr *TracedPath) *TracedPath {
	n := *pr
	n.PathResult = *copyPR(&pr.PathResult)
	n.Events = append([]TraceEvent{}, pr.Events...)
	return &n
}

// Run enumerates the paths of fn and returns them with their event logs.
func (t *Tracer) Run(fn *ssa.Function, args []AV) ([]TracedPath, error) {
	in := t.In
	if in == nil {
		in = &Interp{}
		t.In = in
	}
	if in.MaxPaths == 0 {
		in.MaxPaths = 1 << 16
	}
	in.paths = 0
	in.err = nil
	// route the interpreter's pin hooks through the tracer so that pins see the calling
	// context and consumed pinned loads are logged
	origCall, origLoad := in.PinCall, in.PinLoad
	defer func() { in.PinCall, in.PinLoad = origCall, origLoad }()
	if t.Pin != nil || origCall != nil {
		in.PinCall = func(c *ssa.Call, idx int, st *State) (AV, bool) {
			if t.Pin != nil {
				if av, ok := t.Pin(c, idx, t.curFr, st); ok {
					return av, true
				}
			}
			if origCall != nil {
				return origCall(c, idx, st)
			}
			return AV{}, false
		}
	}
	if origLoad != nil || t.KnownResults {
		in.PinLoad = func(ld *ssa.UnOp, path string) (AV, bool) {
			if origLoad != nil {
				av, ok := origLoad(ld, path)
				if ok && t.cur != nil {
					t.cur.Events = append(t.cur.Events, TraceEvent{Kind: EvPinned, Ins: ld, Frame: t.curFr})
				}
				if ok {
					return av, ok
				}
			}
			if g, isG := ld.X.(*ssa.Global); isG && t.KnownResults && globalNonNil(in.W, g) {
				return AV{K: NonNilV}, true
			}
			return AV{}, false
		}
	}
	st := &State{env: map[ssa.Value]AV{}, mem: map[string]AV{}, alias: map[ssa.Value]string{}, trail: map[*ssa.BasicBlock]bool{}, tuple: map[*ssa.Call][]AV{}}
	for i, p := range fn.Params {
		if i < len(args) {
			st.env[p] = args[i]
		}
	}
	var out []TracedPath
	root := &TraceFrame{Fn: fn}
	if len(fn.Blocks) == 0 {
		return nil, nil
	}
	t.runBlock(fn.Blocks[0], 0, st, root, &TracedPath{}, func(st *State, pr *TracedPath) {
		r := *pr
		r.Final = st
		out = append(out, r)
	})
	t.cur, t.curFr = nil, nil
	return out, in.err
}

func (t *Tracer) follows(c *ssa.Call, callee *ssa.Function, fr *TraceFrame) bool {
	in := t.In
	if callee == nil || callee.Blocks == nil || fr.Depth() >= in.Depth || c.Type() == nil || !Analysable(callee) {
		return false
	}
	for x := fr; x != nil; x = x.Parent {
		if x.Fn == callee {
			return false // no recursion
		}
	}
	if t.Follow != nil {
		return t.Follow(c, callee, fr)
	}
	return in.FollowCall == nil || in.FollowCall(callee)
}

func (t *Tracer) runBlock(b *ssa.BasicBlock, start int, st *State, fr *TraceFrame, pr *TracedPath, k tcont) {
	in := t.In
	if in.err != nil {
		return
	}
	root := fr.Parent == nil
	if start == 0 {
		if st.trail[b] {
			pr.LoopCut = true
			pr.Ret = nil
			in.count()
			k(st, pr)
			return
		}
		st.trail[b] = true
	}
	for i := start; i < len(b.Instrs); i++ {
		ins := b.Instrs[i]
		t.cur, t.curFr = pr, fr
		switch n := ins.(type) {
		case *ssa.Phi:
			for pi, p := range b.Preds {
				if p == st.pred && pi < len(n.Edges) {
					st.env[n] = in.eval(n.Edges[pi], st)
				}
			}
		case *ssa.If:
			cv := in.eval(n.Cond, st)
			if cv.K == ConstV && cv.C.Kind() == constant.Bool {
				idx := 1
				if constant.BoolVal(cv.C) {
					idx = 0
				}
				if t.Branches {
					pr.Events = append(pr.Events, TraceEvent{Kind: EvBranch, Ins: n, Frame: fr, Succ: idx})
				}
				st.pred = b
				t.runBlock(b.Succs[idx], 0, st, fr, pr, k)
				return
			}
			for idx := 0; idx < 2; idx++ {
				ns := st.clone()
				np := copyTP(pr)
				t.cur, t.curFr = np, fr
				in.refine(n.Cond, idx == 0, ns)
				if t.Branches {
					np.Events = append(np.Events, TraceEvent{Kind: EvBranch, Ins: n, Frame: fr, Succ: idx})
				}
				ns.pred = b
				t.runBlock(b.Succs[idx], 0, ns, fr, np, k)
			}
			return
		case *ssa.Jump:
			st.pred = b
			t.runBlock(b.Succs[0], 0, st, fr, pr, k)
			return
		case *ssa.Return:
			pr.Ret = nil
			if root {
				pr.Exit = n
			} else {
				pr.Events = append(pr.Events, TraceEvent{Kind: EvReturn, Ins: n, Frame: fr})
			}
			for _, r := range n.Results {
				pr.Ret = append(pr.Ret, in.eval(r, st))
			}
			in.count()
			k(st, pr)
			return
		case *ssa.Panic:
			if root {
				pr.Exit = n
			}
			pr.Panicked = true
			pr.Ret = nil
			in.count()
			k(st, pr)
			return
		case *ssa.Store:
			in.noteDeref(n.Addr, ins, st, &pr.PathResult)
			key := in.PathKey(n.Addr, st)
			st.mem[key] = in.eval(n.Val, st)
			for kk := range st.mem {
				if len(kk) > len(key) && kk[:len(key)] == key && kk[len(key)] == '.' {
					delete(st.mem, kk)
				}
			}
		case *ssa.Call:
			ev := TraceEvent{Kind: EvCall, Ins: n, Frame: fr}
			if t.WantArgs != nil && t.WantArgs(n) {
				for _, a := range n.Call.Args {
					ev.Args = append(ev.Args, in.eval(a, st))
				}
			}
			pr.Calls = append(pr.Calls, n)
			if in.PinCall != nil {
				if av, ok := in.PinCall(n, -1, st); ok {
					st.env[n] = av
					ev.Pinned = true
					pr.Events = append(pr.Events, ev)
					continue
				}
			}
			callee := n.Call.StaticCallee()
			if t.follows(n, callee, fr) {
				ev.Followed = true
				pr.Events = append(pr.Events, ev)
				cs := st.clone()
				cs.trail = map[*ssa.BasicBlock]bool{}
				cs.alias = map[ssa.Value]string{}
				for k2, v2 := range st.alias {
					cs.alias[k2] = v2
				}
				for ai, p := range callee.Params {
					if ai < len(n.Call.Args) {
						cs.env[p] = in.eval(n.Call.Args[ai], st)
						cs.alias[p] = in.PathKey(n.Call.Args[ai], st)
					}
				}
				// captured variables of a function literal called in place alias the cells of
				// the enclosing activation
				if mc, ok := n.Call.Value.(*ssa.MakeClosure); ok {
					for bi, fv := range callee.FreeVars {
						if bi < len(mc.Bindings) {
							cs.env[fv] = in.eval(mc.Bindings[bi], st)
							cs.alias[fv] = in.PathKey(mc.Bindings[bi], st)
						}
					}
				}
				rest := i + 1
				callerTrail := st.trail
				callerPred := st.pred
				child := &TraceFrame{Fn: callee, Site: n, Parent: fr}
				if len(callee.Blocks) == 0 {
					continue
				}
				t.runBlock(callee.Blocks[0], 0, cs, child, pr, func(rs *State, rp *TracedPath) {
					ns := rs.clone()
					ns.trail = map[*ssa.BasicBlock]bool{}
					for bb := range callerTrail {
						ns.trail[bb] = true
					}
					ns.pred = callerPred
					np := copyTP(rp)
					if rp.Panicked || rp.LoopCut {
						if rp.LoopCut {
							ns.env[n] = AV{}
							delete(ns.tuple, n)
							np.LoopCut = false
							np.Approx = true
						} else {
							k(ns, np)
							return
						}
					} else if len(rp.Ret) == 1 {
						ns.env[n] = rp.Ret[0]
					} else if len(rp.Ret) > 1 {
						ns.tuple[n] = append([]AV{}, rp.Ret...)
					}
					np.Ret = nil
					t.runBlock(b, rest, ns, fr, np, k)
				})
				return
			}
			pr.Events = append(pr.Events, ev)
			st.env[n] = in.defaultCall(n, st)
			if t.KnownResults && st.env[n].K == Top {
				if kr := knownNilness(callee); kr != nil {
					if len(kr) == 1 {
						st.env[n] = kr[0]
					} else {
						st.tuple[n] = kr
					}
				}
			}
		case *ssa.Defer, *ssa.Go:
			if c, ok := ins.(ssa.CallInstruction); ok {
				pr.Calls = append(pr.Calls, c)
				ev := TraceEvent{Kind: EvCall, Ins: ins, Frame: fr}
				if t.WantArgs != nil && t.WantArgs(c) {
					for _, a := range c.Common().Args {
						ev.Args = append(ev.Args, in.eval(a, st))
					}
				}
				pr.Events = append(pr.Events, ev)
			}
		case *ssa.UnOp:
			if n.Op == token.MUL {
				in.noteDeref(n.X, ins, st, &pr.PathResult)
			}
		case *ssa.FieldAddr:
			in.noteDerefBase(n.X, ins, st, &pr.PathResult)
		}
	}
	in.count()
	k(st, pr)
}

// ---------------------------------------------------------------------------------------
// Nil-ness guaranteed by a callee's body.

var knownNilMemo = map[*ssa.Function][]AV{}

// knownNilness returns, for a function with a body, per result NonNilV when every return
// statement yields a value that cannot be nil (a fresh allocation, an interface made from a
// concrete value, a closure, or the result of a function with the same guarantee), Top
// otherwise; nil when nothing is known.
func knownNilness(fn *ssa.Function) []AV {
	if fn == nil || fn.Blocks == nil {
		return nil
	}
	if r, ok := knownNilMemo[fn]; ok {
		return r
	}
	knownNilMemo[fn] = nil // recursion: unknown
	n := fn.Signature.Results().Len()
	if n == 0 {
		return nil
	}
	out := make([]AV, n)
	any := false
	for i := 0; i < n; i++ {
		ok, seen := true, false
		for _, b := range fn.Blocks {
			if b == fn.Recover || len(b.Instrs) == 0 {
				continue
			}
			r, isR := b.Instrs[len(b.Instrs)-1].(*ssa.Return)
			if !isR {
				continue
			}
			rs := ReturnResults(r)
			if i >= len(rs) {
				ok = false
				continue
			}
			seen = true
			ok = ok && neverNil(rs[i], 4, map[ssa.Value]bool{})
		}
		if ok && seen {
			out[i] = AV{K: NonNilV}
			any = true
		}
	}
	if !any {
		return nil
	}
	knownNilMemo[fn] = out
	return out
}

func neverNil(v ssa.Value, depth int, busy map[ssa.Value]bool) bool {
	if v == nil || depth < 0 || busy[v] {
		return false
	}
	busy[v] = true
	defer delete(busy, v)
	switch x := v.(type) {
	case *ssa.Alloc, *ssa.MakeClosure, *ssa.MakeMap, *ssa.MakeChan, *ssa.MakeSlice, *ssa.Function, *ssa.FieldAddr, *ssa.IndexAddr:
		return true
	case *ssa.MakeInterface:
		return true // an interface holding a concrete value is not the nil interface
	case *ssa.ChangeInterface:
		return neverNil(x.X, depth, busy)
	case *ssa.ChangeType:
		return neverNil(x.X, depth, busy)
	case *ssa.Phi:
		for _, e := range x.Edges {
			if !neverNil(e, depth, busy) {
				return false
			}
		}
		return len(x.Edges) > 0
	case *ssa.UnOp:
		if x.Op == token.MUL {
			if cell, ok := x.X.(*ssa.Alloc); ok {
				if sv := singleStore(cell); sv != nil {
					return neverNil(sv, depth, busy)
				}
			}
		}
	case *ssa.Call:
		if kr := knownNilness(x.Call.StaticCallee()); len(kr) == 1 {
			return kr[0].K == NonNilV
		}
	case *ssa.Extract:
		if c, ok := x.Tuple.(*ssa.Call); ok {
			if kr := knownNilness(c.Call.StaticCallee()); x.Index < len(kr) {
				return kr[x.Index].K == NonNilV
			}
		}
	}
	return false
}

var globalNonNilMemo = map[*ssa.Global]bool{}

// globalNonNil reports whether package-level variable g is assigned at least once, only in
// its own package, and only values that cannot be nil (sentinel errors made by errors.New,
// tables built at init time). An exported variable can be assigned by anybody: not known.
func globalNonNil(w *World, g *ssa.Global) bool {
	if g == nil || g.Pkg == nil || g.Object() == nil || g.Object().Exported() {
		return false
	}
	if r, ok := globalNonNilMemo[g]; ok {
		return r
	}
	ok, stores := true, 0
	var scan func(fn *ssa.Function)
	scan = func(fn *ssa.Function) {
		for _, b := range fn.Blocks {
			for _, ins := range b.Instrs {
				switch x := ins.(type) {
				case *ssa.Store:
					if x.Addr == ssa.Value(g) {
						stores++
						ok = ok && neverNil(x.Val, 4, map[ssa.Value]bool{})
					}
					if x.Val == ssa.Value(g) {
						ok = false // the address is kept somewhere
					}
				default:
					// the address escapes (handed to a call, stored): anybody may write it
					for _, op := range ins.Operands(nil) {
						if *op == ssa.Value(g) {
							if ld, isLd := ins.(*ssa.UnOp); !isLd || ld.Op != token.MUL {
								ok = false
							}
						}
					}
				}
			}
		}
		for _, a := range fn.AnonFuncs {
			scan(a)
		}
	}
	for _, m := range g.Pkg.Members {
		switch f := m.(type) {
		case *ssa.Function:
			scan(f)
		case *ssa.Type:
			mset := g.Pkg.Prog.MethodSets.MethodSet(f.Type())
			for i := 0; i < mset.Len(); i++ {
				if fn := g.Pkg.Prog.MethodValue(mset.At(i)); fn != nil && fn.Pkg == g.Pkg {
					scan(fn)
				}
			}
			pset := g.Pkg.Prog.MethodSets.MethodSet(types.NewPointer(f.Type()))
			for i := 0; i < pset.Len(); i++ {
				if fn := g.Pkg.Prog.MethodValue(pset.At(i)); fn != nil && fn.Pkg == g.Pkg {
					scan(fn)
				}
			}
		}
	}
	_ = w
	res := ok && stores > 0
	globalNonNilMemo[g] = res
	return res
}

// Root returns the outermost frame of the chain.
func (f *TraceFrame) Root() *TraceFrame {
	for f != nil && f.Parent != nil {
		f = f.Parent
	}
	return f
}
