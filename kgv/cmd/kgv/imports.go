package main

import _ "kgv/internal/rules"
