package main

import (
	"fmt"
	"os"
	"os/exec"
	"path/filepath"
	"regexp"
	"sort"
	"strings"
	"sync"
	"time"
)

// The thorough tier's neighbourhood sweep.
//
// The rules decide necessary conditions on the current tree. The thorough tier additionally
// explores a neighbourhood of that tree in both directions, statically, with the same rules:
//
//   - every kept seeded change of the property (seeded/<prop>-k/patch.diff: a change that
//     breaks the property, confirmed by a demonstration) is applied to a scratch copy of the
//     CURRENT working tree and the property's rules are evaluated on the result — they must
//     fire ("armed on today's tree": a rule that no longer matches the construct it guards
//     would pass vacuously forever);
//   - every kept behaviour-preserving refactoring of the property's code
//     (refactorings/<prop>-k, refactorings/r2/<prop>-k, refactorings/r3/<prop>-k — the last set is
//     the held-out measurement of DESIGN §9.6: its known false alarms show up here as notes) is applied the same way — the rules
//     must stay silent.
//
// Nothing is executed but the analyser. The outcome is recorded in the evidence
// (coverage.neighbourhood) and as notes; it never changes the verdict on the current tree:
// a seeded change that is no longer detected, or a refactoring that alarms, is a weakness of
// the checker, not a violation of the property by /repo. A patch that does not apply to the
// current tree (because the tree has moved on) is recorded as such.

type sweepResult struct {
	ID      string   `json:"id"`
	Kind    string   `json:"kind"` // "seeded" | "refactoring"
	Applied bool     `json:"applied"`
	Exit    int      `json:"check_exit"`
	Rules   []string `json:"rules_violated,omitempty"`
	Verdict string   `json:"verdict"` // detected | NOT DETECTED | silent | ALARM | patch does not apply | error
	WallS   float64  `json:"wall_s"`
}

var violatedRe = regexp.MustCompile(`(?m)^(?:VIOLATED|UNDECIDED): \S+ (\S+) `)

func neighbourhoodSweep(prop, repo, root string) (map[string]interface{}, []string) {
	type job struct{ id, kind, patch string }
	var jobs []job
	add := func(glob, kind, prefix string) {
		ms, _ := filepath.Glob(filepath.Join(root, glob))
		sort.Strings(ms)
		for _, d := range ms {
			p := filepath.Join(d, "patch.diff")
			if _, err := os.Stat(p); err == nil {
				jobs = append(jobs, job{prefix + filepath.Base(d), kind, p})
			}
		}
	}
	add("seeded/"+prop+"-*", "seeded", "seeded/")
	add("refactorings/"+prop+"-*", "refactoring", "refactorings/")
	add("refactorings/r2/"+prop+"-*", "refactoring", "refactorings/r2/")
	add("refactorings/r3/"+prop+"-*", "refactoring", "refactorings/r3/")
	if len(jobs) == 0 {
		return nil, nil
	}
	self, err := os.Executable()
	if err != nil {
		return map[string]interface{}{"error": err.Error()}, nil
	}
	results := make([]sweepResult, len(jobs))
	sem := make(chan struct{}, 3) // each analyser process needs ~2.5 GB
	var wg sync.WaitGroup
	for i, j := range jobs {
		wg.Add(1)
		go func(i int, j job) {
			defer wg.Done()
			sem <- struct{}{}
			defer func() { <-sem }()
			t0 := time.Now()
			r := sweepResult{ID: j.id, Kind: j.kind}
			defer func() { r.WallS = time.Since(t0).Seconds(); results[i] = r }()
			tmp, err := os.MkdirTemp("", "kgv-nb-")
			if err != nil {
				r.Verdict = "error: " + err.Error()
				return
			}
			defer os.RemoveAll(tmp)
			tree, vroot := filepath.Join(tmp, "tree"), filepath.Join(tmp, "root")
			_ = os.MkdirAll(vroot, 0o755)
			if out, err := exec.Command("rsync", "-a", "--exclude", ".git", repo+"/", tree+"/").CombinedOutput(); err != nil {
				r.Verdict = "error: copy: " + strings.TrimSpace(string(out))
				return
			}
			for _, f := range []string{"known_findings.json", "properties.jsonl"} {
				if b, err := os.ReadFile(filepath.Join(root, f)); err == nil {
					_ = os.WriteFile(filepath.Join(vroot, f), b, 0o644)
				}
			}
			ap := exec.Command("git", "apply", "--whitespace=nowarn", j.patch)
			ap.Dir = tree
			ap.Env = append(os.Environ(), "GIT_CEILING_DIRECTORIES="+tmp)
			if _, err := ap.CombinedOutput(); err != nil {
				r.Verdict = "patch does not apply to the current tree"
				return
			}
			r.Applied = true
			cmd := exec.Command(self, "check", "-prop", prop, "-tier", "quick", "-repo", tree, "-root", vroot)
			cmd.Env = append(os.Environ(), "KGV_NO_SWEEP=1")
			out, err := cmd.CombinedOutput()
			r.Exit = 0
			if ee, ok := err.(*exec.ExitError); ok {
				r.Exit = ee.ExitCode()
			} else if err != nil {
				r.Verdict = "error: " + err.Error()
				return
			}
			seen := map[string]bool{}
			for _, m := range violatedRe.FindAllStringSubmatch(string(out), -1) {
				if !seen[m[1]] {
					seen[m[1]] = true
					r.Rules = append(r.Rules, m[1])
				}
			}
			sort.Strings(r.Rules)
			switch {
			case j.kind == "seeded" && r.Exit == 1:
				r.Verdict = "detected"
			case j.kind == "seeded" && r.Exit == 0:
				r.Verdict = "NOT DETECTED"
			case j.kind == "refactoring" && r.Exit == 0:
				r.Verdict = "silent"
			case j.kind == "refactoring" && r.Exit == 1:
				r.Verdict = "ALARM"
			default:
				r.Verdict = fmt.Sprintf("error: analyser exit %d", r.Exit)
			}
		}(i, j)
	}
	wg.Wait()
	var notes []string
	nSeed, nDet, nRef, nSil, nNA := 0, 0, 0, 0, 0
	for _, r := range results {
		switch {
		case !r.Applied:
			nNA++
			notes = append(notes, fmt.Sprintf("neighbourhood: %s — %s", r.ID, r.Verdict))
		case r.Kind == "seeded":
			nSeed++
			if r.Verdict == "detected" {
				nDet++
			} else {
				notes = append(notes, fmt.Sprintf("neighbourhood: %s applied to the current tree is %s (checker weakness, not a violation of the current tree)", r.ID, r.Verdict))
			}
		default:
			nRef++
			if r.Verdict == "silent" {
				nSil++
			} else {
				notes = append(notes, fmt.Sprintf("neighbourhood: behaviour-preserving %s applied to the current tree gives %s on %s (false alarm of the checker on that variant, not a violation of the current tree)", r.ID, r.Verdict, strings.Join(r.Rules, ", ")))
			}
		}
	}
	return map[string]interface{}{
		"explanation":            "thorough tier: the property's rules re-evaluated (statically, nothing executed) on scratch copies of the current working tree with each kept seeded property-breaking change and each kept behaviour-preserving refactoring of this property applied; recorded only, never part of the verdict on the current tree",
		"programs":               len(results),
		"seeded_applied":         nSeed,
		"seeded_detected":        nDet,
		"refactorings_applied":   nRef,
		"refactorings_silent":    nSil,
		"patches_not_applicable": nNA,
		"results":                results,
	}, notes
}
