// kgv — static verification of kubegateway properties (see /verif/DESIGN.md).
//
//	kgv check -prop C05 [-tier quick|thorough] [-repo /repo] [-root /verif]
//	kgv explain <replay.json>
//	kgv list
package main

import (
	"encoding/json"
	"flag"
	"fmt"
	"os"
	"path/filepath"
	"runtime/debug"
	"strconv"
	"strings"
	"time"

	"kgv/internal/eng"
	"kgv/internal/rules"
)

func defaultRoot() string {
	if r := os.Getenv("KGV_ROOT"); r != "" {
		return r
	}
	exe, err := os.Executable()
	if err == nil {
		d := filepath.Dir(filepath.Dir(exe))
		if _, err := os.Stat(filepath.Join(d, "properties.jsonl")); err == nil {
			return d
		}
	}
	return "/verif"
}

func main() {
	if len(os.Args) < 2 {
		fmt.Println("usage: kgv check|explain|list ...")
		os.Exit(2)
	}
	switch os.Args[1] {
	case "list":
		for _, id := range rules.IDs() {
			fmt.Println(id)
		}
	case "check":
		os.Exit(check(os.Args[2:]))
	case "explain":
		os.Exit(explain(os.Args[2:]))
	default:
		fmt.Println("unknown command", os.Args[1])
		os.Exit(2)
	}
}

func check(args []string) int {
	fs := flag.NewFlagSet("check", flag.ExitOnError)
	prop := fs.String("prop", "", "property id (Cnn)")
	tier := fs.String("tier", "", "quick|thorough (default: $VERIF_TIER or quick)")
	repo := fs.String("repo", "/repo", "repository to analyse")
	root := fs.String("root", defaultRoot(), "verif root (evidence, known findings)")
	only := fs.String("only", "", "print obligations whose rule contains this text (debug)")
	_ = fs.Parse(args)
	if *tier == "" {
		*tier = os.Getenv("VERIF_TIER")
	}
	if *tier != "thorough" {
		*tier = "quick"
	}
	seed, _ := strconv.ParseInt(os.Getenv("VERIF_SEED"), 10, 64)
	started := time.Now()
	f, ok := rules.Get(*prop)
	if !ok {
		fmt.Printf("unknown property %q\n", *prop)
		return 2
	}
	findings, err := eng.LoadFindings(filepath.Join(*root, "known_findings.json"))
	if err != nil {
		fmt.Printf("VIOLATION property=%s replay=%s\nengine: cannot read known findings: %v\n", *prop, filepath.Join(*root, "known_findings.json"), err)
		return 1
	}
	w, err := eng.Load(*repo)
	if err != nil {
		c := eng.NewCtx(nil, *prop, *tier)
		c.Fail("engine", nil, "load", 0, err.Error())
		return c.Finish(*root, findings, seed, started)
	}
	c := eng.NewCtx(w, *prop, *tier)
	func() {
		defer func() {
			if r := recover(); r != nil {
				c.Fail("engine", nil, "panic", 0, fmt.Sprintf("analyser panic: %v\n%s", r, debug.Stack()))
			}
		}()
		for _, fx := range rules.Fixtures(*prop) {
			fx(c)
		}
		f(c)
		if c.Thorough() {
			rules.ThoroughExtras(c)
		}
	}()
	if c.Thorough() && os.Getenv("KGV_NO_SWEEP") == "" {
		if nb, notes := neighbourhoodSweep(*prop, *repo, *root); nb != nil {
			if c.Extra == nil {
				c.Extra = map[string]interface{}{}
			}
			c.Extra["neighbourhood"] = nb
			for _, n := range notes {
				c.Note("%s", n)
			}
			fmt.Printf("%s thorough neighbourhood: %v seeded detected of %v applied, %v refactorings silent of %v applied, %v patches not applicable\n", *prop,
				nb["seeded_detected"], nb["seeded_applied"], nb["refactorings_silent"], nb["refactorings_applied"], nb["patches_not_applicable"])
		}
	}
	if *only != "" {
		for _, o := range c.Obs {
			if strings.Contains(o.Rule, *only) || *only == "all" {
				fmt.Printf("  %-10s %-12s %s:%d %s [%s] %s\n", o.Verdict, o.Rule, o.File, o.Line, o.Function, o.Construct, o.Detail)
			}
		}
	}
	return c.Finish(*root, findings, seed, started)
}

func explain(args []string) int {
	if len(args) < 1 {
		fmt.Println("usage: kgv explain <replay.json>")
		return 2
	}
	b, err := os.ReadFile(args[0])
	if err != nil {
		fmt.Println(err)
		return 2
	}
	var r struct {
		Property   string         `json:"property"`
		Tier       string         `json:"tier"`
		Obligation eng.Obligation `json:"obligation"`
		RuleDoc    string         `json:"rule_doc"`
	}
	if err := json.Unmarshal(b, &r); err != nil {
		fmt.Println(err)
		return 2
	}
	fmt.Printf("property %s, rule %s: %s\nconstruct: %s [%s] at %s:%d\nrecorded verdict: %s — %s\n", r.Property, r.Obligation.Rule, r.RuleDoc,
		r.Obligation.Function, r.Obligation.Construct, r.Obligation.File, r.Obligation.Line, r.Obligation.Verdict, r.Obligation.Detail)
	f, ok := rules.Get(r.Property)
	if !ok {
		return 2
	}
	w, err := eng.Load("/repo")
	if err != nil {
		fmt.Println("load:", err)
		return 1
	}
	c := eng.NewCtx(w, r.Property, r.Tier)
	func() {
		defer func() { _ = recover() }()
		f(c)
	}()
	for _, o := range c.Obs {
		if o.Key() == r.Obligation.Key() {
			fmt.Printf("current tree: %s — %s (%s:%d)\n", o.Verdict, o.Detail, o.File, o.Line)
			if o.Verdict == eng.Violated || o.Verdict == eng.Undecided {
				return 1
			}
			return 0
		}
	}
	fmt.Println("current tree: obligation no longer present")
	return 0
}
