#!/bin/bash
# Runs the repository's pinned test suite (the command of /root/.vp/BASELINE.json) on /repo's
# working tree and compares the set of passing tests with BASELINE.json's stable_pass.
export GOFLAGS=-mod=mod GOPROXY=off GOSUMDB=off GOTOOLCHAIN=local
out=$(mktemp /tmp/baseline.XXXXXX.json)
for m in . ./staging/src/github.com/kubewharf/apiserver-runtime; do
  (cd /repo/$m && go test -mod=mod -json -vet=off -count=1 -timeout 25m ./... ) >> "$out" 2>/dev/null
done
python3 - "$out" <<'PY'
import json,sys
passed=set(); failed=set()
for l in open(sys.argv[1]):
    try: e=json.loads(l)
    except Exception: continue
    if e.get("Test") and e.get("Action") in("pass","fail"):
        k=e["Package"]+"::"+e["Test"]
        (passed if e["Action"]=="pass" else failed).add(k)
b=json.load(open("/root/.vp/BASELINE.json"))
want=set(b["stable_pass"])
missing=sorted(want-passed)
print("passed",len(passed),"failed",len(failed),"baseline",len(want),"missing",len(missing))
for m in missing: print("  MISSING",m)
sys.exit(1 if missing else 0)
PY
rc=$?
rm -f "$out"
exit $rc
