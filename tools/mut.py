#!/usr/bin/env python3
"""Mutation harness for the kgv rules (development aid, not a registered check).

tools/mut.py [-k substring] [-p Cnn] : for every mutant of tools/mutants/*.json whose id
contains the substring / whose property matches, apply the textual edit to a scratch git
worktree of /repo (under /tmp, removed afterwards), make sure the edited package still
builds, run `kgv check` against the worktree and report which rules fired.

A mutant is {"id", "props":[..], "file", "old", "new", "expect": "fire"|"silent", "note"}.
"expect": "silent" entries are behaviour-preserving edits that must not raise an alarm.
Results are appended to a summary printed at the end; MUTANTS.md is regenerated with -w.
"""
import argparse, glob, json, os, re, shutil, subprocess, sys, tempfile

ENV = dict(os.environ, GOFLAGS="-mod=mod -trimpath", GOPROXY="off", GOSUMDB="off", GOTOOLCHAIN="local")
ENV.pop("GOWORK", None)
HERE = os.path.dirname(os.path.dirname(os.path.abspath(__file__)))


def sh(cmd, cwd=None, check=False):
    return subprocess.run(cmd, shell=True, cwd=cwd, env=ENV, stdout=subprocess.PIPE, stderr=subprocess.STDOUT, text=True, check=check)


def main():
    ap = argparse.ArgumentParser()
    ap.add_argument("-k", default="")
    ap.add_argument("-p", default="")
    ap.add_argument("-w", action="store_true", help="rewrite MUTANTS.md")
    ap.add_argument("--tests", action="store_true", help="also run the package tests of the edited package")
    ap.add_argument("--patch", action="append", default=[], help="patch applied to the scratch worktree before mutating (e.g. a repair not yet committed)")
    args = ap.parse_args()

    muts = []
    for f in sorted(glob.glob(os.path.join(HERE, "tools", "mutants", "*.json"))):
        muts += json.load(open(f))
    muts = [m for m in muts if args.k in m["id"] and (not args.p or args.p in m["props"])]
    if not muts:
        print("no mutants selected")
        return 0

    r = sh("cd %s/kgv && go build -o %s/bin/kgv ./cmd/kgv" % (HERE, HERE))
    if r.returncode != 0:
        print(r.stdout)
        return 2

    wt = tempfile.mkdtemp(prefix="kgv-mut-", dir="/tmp")
    os.rmdir(wt)
    root = tempfile.mkdtemp(prefix="kgv-mutroot-", dir="/tmp")
    shutil.copy(os.path.join(HERE, "known_findings.json"), root)
    shutil.copy(os.path.join(HERE, "properties.jsonl"), root)
    sh("git -C /repo worktree add --detach %s HEAD" % wt, check=True)
    for pt in args.patch:
        r = sh("git apply %s" % pt, cwd=wt)
        if r.returncode != 0:
            print("patch failed:", pt, r.stdout)
            sh("git -C /repo worktree remove --force %s" % wt)
            return 2
    results = []
    try:
        for m in muts:
            path = os.path.join(wt, m["file"])
            src = open(path).read()
            cnt = src.count(m["old"])
            if cnt != m.get("count", 1):
                results.append((m, "SKIP", "pattern occurs %d times" % cnt, ""))
                continue
            open(path, "w").write(src.replace(m["old"], m["new"]))
            pkgdir = os.path.dirname(m["file"])
            moddir = wt
            if m["file"].startswith("staging/"):
                moddir = os.path.join(wt, "staging/src/github.com/kubewharf/apiserver-runtime")
                pkgdir = os.path.relpath(os.path.join(wt, pkgdir), moddir)
            b = sh("go build ./%s/ && go vet ./%s/ >/dev/null 2>&1; go build ./..." % (pkgdir, pkgdir), cwd=moddir)
            if b.returncode != 0:
                results.append((m, "NOBUILD", b.stdout[-400:], ""))
                open(path, "w").write(src)
                continue
            tests = ""
            if args.tests:
                t = sh("go test -vet=off -count=1 ./%s/ 2>&1 | tail -3" % pkgdir, cwd=moddir)
                tests = "tests:" + ("ok" if "FAIL" not in t.stdout else "FAIL")
            fired = []
            for p in m["props"]:
                r = sh("%s/bin/kgv check -prop %s -tier %s -repo %s -root %s" % (HERE, p, m.get("tier", "quick"), wt, root))
                rules = sorted(set(re.findall(r"^(?:VIOLATED|UNDECIDED): \S+ (\S+)", r.stdout, re.M)))
                if r.returncode != 0:
                    fired.append("%s:%s" % (p, ",".join(rules) or "exit%d" % r.returncode))
            want = m.get("expect", "fire")
            got = "fire" if fired else "silent"
            status = "OK" if want == got else "MISS" if want == "fire" else "FALSE-ALARM"
            results.append((m, status, " ".join(fired), tests))
            open(path, "w").write(src)
            print("%-12s %-40s %s %s" % (status, m["id"], " ".join(fired), tests), flush=True)
    finally:
        sh("git -C /repo worktree remove --force %s" % wt)
        shutil.rmtree(root, ignore_errors=True)
        sh("go clean -cache >/dev/null 2>&1 || true") if False else None
    bad = [r for r in results if r[1] not in ("OK",)]
    print("\n%d mutants, %d not OK" % (len(results), len(bad)))
    for m, st, info, _ in bad:
        print("  ", st, m["id"], info[:300])
    if args.w:
        write_md(results)
    return 1 if bad else 0


def write_md(results):
    path = os.path.join(HERE, "MUTANTS.md")
    old = {}
    if os.path.exists(path):
        for line in open(path):
            mm = re.match(r"\| (\S+) \|", line)
            if mm:
                old[mm.group(1)] = line
    for m, st, info, tests in results:
        old[m["id"]] = "| %s | %s | %s | %s | %s | %s |\n" % (m["id"], ",".join(m["props"]), m.get("expect", "fire"), st, info.replace("|", "/"), m.get("note", "").replace("|", "/"))
    with open(path, "w") as f:
        f.write("# Mutants tried against the kgv rules\n\nEach row is one textual edit of /repo applied to a scratch worktree (tools/mut.py, definitions in tools/mutants/*.json); the edited tree still builds. `fire` rows must make the named check exit 1, `silent` rows are behaviour-preserving edits that must not.\n\n| id | props | expect | result | rules fired | note |\n|---|---|---|---|---|---|\n")
        for k in sorted(old):
            if k != "id" and not k.startswith("-"):
                f.write(old[k])


if __name__ == "__main__":
    sys.exit(main())
