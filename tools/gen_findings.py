#!/usr/bin/env python3
"""Builds known_findings.json: `fixed` entries from the violations the checks report on the
pinned tree (notes/pinned-tree/*.out, produced by running kgv against commit 05d6a99) mapped
to the fix commits of tools/fix_commits.json, plus the hand-written `known` entries of
tools/known_entries.json. Fixed entries suppress nothing (see DESIGN.md)."""
import glob, json, os, re
here = os.path.dirname(os.path.dirname(os.path.abspath(__file__)))
fix = json.load(open(os.path.join(here, "tools", "fix_commits.json")))
known = json.load(open(os.path.join(here, "tools", "known_entries.json")))
out = []
knownkeys = {(k["rule"], k["function"], k["construct"]) for k in known}
for f in sorted(glob.glob(os.path.join(here, "notes", "pinned-tree", "C*.out"))):
    prop = os.path.basename(f)[:-4]
    for line in open(f):
        m = re.match(r"^VIOLATED: (\S*): (\S+) (.+?) \[(.+?)\] (.*)$", line.rstrip("\n"))
        if not m:
            continue
        pos, rule, fn, construct, detail = m.groups()
        if (rule, fn, construct) in knownkeys or rule.endswith(".engine"):
            continue
        commit, what = None, None
        for e in fix:
            if e["property"] == prop and any(rule == r or rule.startswith(r) for r in e["rules"]) and (not e.get("construct_contains") or e["construct_contains"] in construct) and (not e.get("function_contains") or e["function_contains"] in fn):
                commit, what = e["commit"], e["what"]
                break
        if commit is None:
            print("UNMAPPED", prop, rule, fn, construct)
            continue
        out.append({"property": prop, "rule": rule, "function": fn, "construct": construct, "status": "fixed", "commit": commit,
                    "what": "fixed: property=%s %s %s" % (prop, commit, what), "failing_case": detail[:400]})
out += known
json.dump(out, open(os.path.join(here, "known_findings.json"), "w"), indent=1, ensure_ascii=False)
print(len(out), "entries (", sum(1 for e in out if e["status"] == "known"), "known )")
