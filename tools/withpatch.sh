#!/bin/bash
# tools/withpatch.sh <patch>... -- <prop>... : run kgv for the properties on a scratch
# worktree of /repo HEAD with the patches applied (removed afterwards). Development aid.
export GOFLAGS="-mod=mod -trimpath" GOPROXY=off GOSUMDB=off GOTOOLCHAIN=local
here="$(cd "$(dirname "$0")/.." && pwd)"
patches=(); props=(); seen=0
for a in "$@"; do if [ "$a" = "--" ]; then seen=1; elif [ $seen = 0 ]; then patches+=("$a"); else props+=("$a"); fi; done
wt=$(mktemp -u /tmp/kgv-wp-XXXXXX); root=$(mktemp -d /tmp/kgv-wproot-XXXXXX)
cp "$here/known_findings.json" "$here/properties.jsonl" "$root/"
git -C /repo worktree add -q --detach "$wt" HEAD || exit 2
for p in "${patches[@]}"; do (cd "$wt" && git apply "$p") || { echo "patch $p failed"; git -C /repo worktree remove --force "$wt"; exit 2; }; done
(cd "$wt" && go build ./... ) || echo "BUILD FAILED"
(cd "$here/kgv" && go build -o "$here/bin/kgv" ./cmd/kgv) || exit 2
rc=0
for p in "${props[@]}"; do "$here/bin/kgv" check -prop "$p" -repo "$wt" -root "$root" ${KGV_ARGS:-} | grep -v "^VIOLATION" | cut -c1-${COLS:-260}; [ ${PIPESTATUS[0]} -ne 0 ] && rc=1; done
git -C /repo worktree remove --force "$wt"; rm -rf "$root"
exit $rc
