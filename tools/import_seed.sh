#!/bin/bash
# tools/import_seed.sh <out-dir e.g. /tmp/seed-C05-out/2> <id e.g. C05-2> <initially: detected|missed|weak> [extra props...]
# Confirms the change (tools/seeded.sh incl. baseline) and keeps it under /verif/seeded/<id>/.
here="$(cd "$(dirname "$0")/.." && pwd)"
src="$1"; id="$2"; init="$3"; shift 3
dst="$here/seeded/$id"; mkdir -p "$dst"
cp "$src/patch.diff" "$dst/"; rm -rf "$dst/demo"; [ -d "$src/demo" ] && cp -r "$src/demo" "$dst/demo"; cp "$src/meta.json" "$dst/meta.json"
"$here/tools/seeded.sh" "$dst" "$@" > "$dst/confirm.log" 2>&1
python3 - "$dst" "$init" <<'PY'
import json,sys,re
d,init=sys.argv[1],sys.argv[2]
m=json.load(open(d+"/meta.json"))
log=open(d+"/confirm.log").read()
ex=re.findall(r"exit=(\d+)",log)
checks=re.findall(r"^   (C\d\d) exit=(\d+) \d+ violated: (.*)$",log,re.M)
m["confirmed"]={"demo_without_change_exit":int(ex[0]) if ex else None,"demo_with_change_exit":int(ex[1]) if len(ex)>1 else None,
 "baseline":(re.search(r"baseline passed=(\d+) missing=(\d+)",log).group(0) if re.search(r"baseline passed",log) else "not run"),
 "checks":[{"property":p,"exit":int(e),"rules":r.strip(";").split(";") if r.strip() else []} for p,e,r in checks],
 "how":"tools/seeded.sh on a scratch worktree of /repo HEAD (see confirm.log)","detected_when_first_run":init}
json.dump(m,open(d+"/meta.json","w"),indent=1,ensure_ascii=False)
print(d.split("/")[-1],m["confirmed"]["demo_without_change_exit"],m["confirmed"]["demo_with_change_exit"],m["confirmed"]["baseline"],[(c["property"],c["exit"],c["rules"][:2]) for c in m["confirmed"]["checks"]])
PY
