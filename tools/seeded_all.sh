#!/bin/bash
# tools/seeded_all.sh [id-prefix] — regression harness: re-runs every kept seeded change (demo without/with the
# change, then the property's check on the changed tree; no baseline) and lists the ones that are no longer
# detected. Development aid, not a registered check.
here="$(cd "$(dirname "$0")/.." && pwd)"
export GOFLAGS="-mod=mod -trimpath" GOPROXY=off GOSUMDB=off GOTOOLCHAIN=local
(cd "$here/kgv" && go build -o "$here/bin/kgv" ./cmd/kgv) || exit 2
ls -d "$here"/seeded/${1:-C}* | xargs -P ${P:-6} -I{} bash -c 'r=$(SKIP_BASELINE=1 "'$here'/tools/seeded.sh" {} 2>&1 | grep "exit=" | tr "\n" " "); echo "$(basename {}) $r"' | sort | tee /tmp/seeded_all.$$ | awk '{ if ($0 !~ /C[0-9][0-9] exit=1/) print "NOT DETECTED: " $0; else print "ok " $1 " " $0 }' | cut -c1-220
bad=$(grep -vc 'C[0-9][0-9] exit=1' /tmp/seeded_all.$$); rm -f /tmp/seeded_all.$$
echo "undetected: $bad"; [ "$bad" = "0" ]
