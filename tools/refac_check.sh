#!/bin/bash
# tools/refac_check.sh <patch-dir>... : for each behaviour-preserving refactoring (patch.diff in the dir) apply it
# to a scratch worktree of /repo HEAD and run ALL 20 checks (or those in $PROPS); any non-zero exit is a false alarm to investigate.
export GOFLAGS="-mod=mod -trimpath" GOPROXY=off GOSUMDB=off GOTOOLCHAIN=local
here="$(cd "$(dirname "$0")/.." && pwd)"
(cd "$here/kgv" && go build -o "$here/bin/kgv" ./cmd/kgv) || exit 2
props="${PROPS:-$(seq -f "C%02g" 1 20)}"
for d in "$@"; do
  d="$(cd "$d" && pwd)"
  wt=$(mktemp -u /tmp/kgv-rf-XXXXXX); root=$(mktemp -d /tmp/kgv-rfroot-XXXXXX)
  cp "$here/known_findings.json" "$here/properties.jsonl" "$root/"
  git -C /repo worktree add -q --detach "$wt" HEAD || continue
  if ! (cd "$wt" && git apply "$d/patch.diff"); then echo "$d: PATCH DOES NOT APPLY"; git -C /repo worktree remove --force "$wt"; continue; fi
  (cd "$wt" && go build ./... ) || echo "$d: BUILD FAILED"
  echo $props | tr ' ' '\n' | xargs -P 10 -I{} sh -c "'$here/bin/kgv' check -prop {} -repo '$wt' -root '$root' > '$root/{}.log' 2>&1; echo \$? > '$root/{}.rc'"
  bad=""
  for p in $props; do
    if [ "$(cat $root/$p.rc)" != "0" ]; then bad="$bad $p:$(grep '^VIOLATED\|^UNDECIDED' $root/$p.log | sed -E 's/^[A-Z]+: \S+ (\S+) .*\[(.*)\].*/\1[\2]/' | cut -c1-110 | head -3 | tr '\n' ';')"; fi
  done
  if [ -n "$VERBOSE" ]; then for p in $props; do grep -h '^VIOLATED\|^UNDECIDED' $root/$p.log | cut -c1-600; done; fi
  if [ -z "$bad" ]; then echo "$d: silent ($(echo $props | wc -w) checks)"; else echo "$d: ALARM $bad"; fi
  git -C /repo worktree remove --force "$wt"; rm -rf "$root"
done
