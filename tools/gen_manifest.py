#!/usr/bin/env python3
"""Generates /verif/MANIFEST.json from tools/checks.json (one entry per claimed property)
and the list of properties; every property not claimed is listed under not_applicable."""
import json, os, sys
here = os.path.dirname(os.path.dirname(os.path.abspath(__file__)))
checks = json.load(open(os.path.join(here, "tools", "checks.json")))
props = [json.loads(l)["id"] for l in open(os.path.join(here, "properties.jsonl"))]
m = {
    "version": 1,
    "setup_cmd": "cd /verif/kgv && GOFLAGS=-mod=mod GOPROXY=off GOSUMDB=off GOTOOLCHAIN=local go build -o /verif/bin/kgv ./cmd/kgv",
    "hooks": {
        "guard": "verif",
        "enable": "none needed: the checks analyse /repo's source as it is; no instrumentation or hook commit exists",
        "baseline_off_cmd": "cd /repo && go test -mod=mod -vet=off -count=1 ./... ; cd /repo/staging/src/github.com/kubewharf/apiserver-runtime && go test -mod=mod -vet=off -count=1 ./...",
        "source_commits": [],
        "add_only": True,
    },
    "engines": [{
        "name": "kgv",
        "path": "/verif/kgv",
        "serves_properties": [c["property_id"] for c in checks["claimed"]],
        "kind_free_text": "repository-specific static analyser over go/packages + go/ssa (x/tools v0.29.0): dominance/must-pass-through, guard (control-dependence) queries, value-origin slicing, lock regions, interval bounds, shape enumeration, who-may-call/who-may-write scans, forcing by path-enumerating abstract interpretation (calls/loads pinned, CFG paths of the source enumerated with an event log), calling contexts through helpers; thorough tier adds the neighbourhood sweep (the same rules on scratch copies of the current tree with each kept seeded change / refactoring applied); no code of /repo is executed",
    }],
    "checks": [],
    "notes": checks.get("notes", ""),
    "not_applicable": [],
}
claimed = set()
for c in checks["claimed"]:
    pid = c["property_id"]
    claimed.add(pid)
    m["checks"].append({
        "property_id": pid,
        "quick_cmd": f"./run.sh {pid} quick",
        "thorough_cmd": f"./run.sh {pid} thorough",
        "evidence_file": f"/verif/evidence/{pid}.json",
        "replay_cmd_template": "/verif/bin/kgv explain {path}",
        "engine": "kgv",
        "level_claimed": {"category": "other", "text": c["text"], "design_ref": c.get("design_ref", "DESIGN.md §2 " + pid)},
        "level_note": c["note"],
        "technique": c["technique"],
    })
for p in props:
    if p not in claimed:
        reason = checks.get("not_applicable", {}).get(p)
        if not reason:
            print("missing not_applicable reason for", p, file=sys.stderr)
            sys.exit(1)
        m["not_applicable"].append({"property_id": p, "reason": reason})
json.dump(m, open(os.path.join(here, "MANIFEST.json"), "w"), indent=1)
print("claimed", len(claimed), "not_applicable", len(m["not_applicable"]))
