#!/bin/bash
# tools/seeded.sh <seeded-dir> [props...] — confirms a seeded change kept under /verif/seeded/<id>/ :
#   seeded/<id>/patch.diff   the change to /repo (git diff, non-test files)
#   seeded/<id>/demo/        files to copy into the tree (paths relative to the repo root)
#   seeded/<id>/meta.json    {"property","demo_cmd", ...}
# Steps, all on a scratch worktree of /repo HEAD under /tmp (removed afterwards):
#   1. demo without the change must pass      2. demo with the change must fail
#   3. the tree with the change builds and the pinned baseline still passes (unless SKIP_BASELINE=1)
#   4. every listed check (default: meta.property) is run against the changed tree; exit codes are printed
# Nothing here is a registered check; it is the harness used to validate the checks.
export GOFLAGS="-mod=mod -trimpath" GOPROXY=off GOSUMDB=off GOTOOLCHAIN=local
here="$(cd "$(dirname "$0")/.." && pwd)"
dir="$(cd "$1" && pwd)"; shift
prop=$(python3 -c "import json;print(json.load(open('$dir/meta.json'))['property'])")
demo=$(python3 -c "import json;print(json.load(open('$dir/meta.json'))['demo_cmd'])")
props=("$@"); [ ${#props[@]} -eq 0 ] && props=("$prop")
wt=$(mktemp -u /tmp/kgv-seed-XXXXXX); root=$(mktemp -d /tmp/kgv-seedroot-XXXXXX)
cp "$here/known_findings.json" "$here/properties.jsonl" "$root/"
git -C /repo worktree add -q --detach "$wt" HEAD || exit 2
trap 'git -C /repo worktree remove --force "$wt" >/dev/null 2>&1; rm -rf "$root"' EXIT
[ -d "$dir/demo" ] && cp -r "$dir/demo/." "$wt/"
echo "== demo without the change (must pass)"
(cd "$wt" && timeout 900 bash -c "$demo") >"$root/demo0.log" 2>&1; d0=$?
echo "   exit=$d0"; [ $d0 -ne 0 ] && tail -15 "$root/demo0.log"
(cd "$wt" && git apply "$dir/patch.diff") || { echo "patch does not apply to HEAD"; exit 2; }
echo "== build with the change"
(cd "$wt" && go build ./... && go vet ./$(git -C "$wt" diff --name-only | head -1 | xargs dirname)/ >/dev/null 2>&1; go build ./...) || { echo "BUILD FAILED"; exit 2; }
echo "== demo with the change (must fail)"
(cd "$wt" && timeout 900 bash -c "$demo") >"$root/demo1.log" 2>&1; d1=$?
echo "   exit=$d1"; [ $d1 -eq 0 ] && echo "   DEMO DOES NOT FAIL"
tail -8 "$root/demo1.log" | sed 's/^/   | /'
if [ -z "$SKIP_BASELINE" ]; then
  echo "== baseline with the change (demo files removed)"
  if [ -d "$dir/demo" ]; then (cd "$dir/demo" && find . -type f) | while read f; do rm -f "$wt/$f"; done; fi
  out=$(mktemp /tmp/seedbase.XXXXXX.json)
  for m in . ./staging/src/github.com/kubewharf/apiserver-runtime; do (cd "$wt/$m" && go test -mod=mod -json -vet=off -count=1 -timeout 25m ./...) >>"$out" 2>/dev/null; done
  python3 - "$out" <<'PY'
import json,sys
passed=set()
for l in open(sys.argv[1]):
    try: e=json.loads(l)
    except Exception: continue
    if e.get("Test") and e.get("Action")=="pass": passed.add(e["Package"]+"::"+e["Test"])
want=set(json.load(open("/root/.vp/BASELINE.json"))["stable_pass"])
miss=sorted(want-passed)
print("   baseline passed=%d missing=%d"%(len(passed&want),len(miss)))
for m in miss[:10]: print("   MISSING",m)
PY
  rm -f "$out"
fi
(cd "$here/kgv" && go build -o "$root/kgv" ./cmd/kgv) || exit 2
echo "== checks on the changed tree"
for p in "${props[@]}"; do
  "$root/kgv" check -prop "$p" -repo "$wt" -root "$root" >"$root/$p.log" 2>&1; rc=$?
  echo "   $p exit=$rc $(grep -c '^VIOLATED\|^UNDECIDED' "$root/$p.log") violated: $(grep '^VIOLATED\|^UNDECIDED' "$root/$p.log" | sed -E 's/^[A-Z]+: \S+ (\S+) .*\[(.*)\].*/\1[\2]/' | cut -c1-160 | head -4 | tr '\n' ';')"
done
